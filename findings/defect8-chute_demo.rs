// Does a panic in the processing function of one pipe stay with its object?
use desync::{Desync, pipe};
use futures::prelude::*;
use futures::channel::mpsc;
use futures::future;
use std::sync::Arc;
use std::thread;
use std::time::Duration;

#[test]
fn panicked_pipe_target_does_not_break_other_pipes() {
    // victim: a pipe whose processing function panics on its first item
    let victim = Arc::new(Desync::new(0u32));
    let (mut tx, rx) = mpsc::channel::<u32>(4);
    let out = pipe(Arc::clone(&victim), rx, |v, item| { if item == 1 { panic!("vh-expected-panic: processing function panics") } *v += item; future::ready(*v).boxed() });
    futures::executor::block_on(async { tx.send(1).await.unwrap(); });
    thread::sleep(Duration::from_millis(300));          // the panic has unwound by now (on a pool thread)

    // the user lets go of the victim and of the dead pipe's output stream
    drop(victim);
    let r = std::panic::catch_unwind(std::panic::AssertUnwindSafe(|| drop(out)));
    println!("dropping the output stream of the dead pipe: panicked = {}", r.is_err());
    thread::sleep(Duration::from_millis(300));

    // a completely unrelated, healthy object with a pipe of its own
    let healthy = Arc::new(Desync::new(0u32));
    let (mut tx2, rx2) = mpsc::channel::<u32>(4);
    let mut out2 = pipe(Arc::clone(&healthy), rx2, |v, item| { *v += item; future::ready(*v).boxed() });
    let got = futures::executor::block_on(async { tx2.send(5).await.unwrap(); out2.next().await });
    assert_eq!(got, Some(5));
    // dropping the healthy pipe's output stream must not panic
    let r2 = std::panic::catch_unwind(std::panic::AssertUnwindSafe(|| drop(out2)));
    assert!(r2.is_ok(), "dropping the output stream of a HEALTHY pipe panicked after an unrelated object had panicked");
    assert_eq!(healthy.sync(|v| *v), 5);
}
