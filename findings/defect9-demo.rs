// pipe_in holds only a weak reference - but the temporary strong reference it takes while scheduling a read can be the last one
use desync::{Desync, pipe_in};
use futures::prelude::*;
use futures::future;
use std::pin::Pin;
use std::sync::Arc;
use std::sync::atomic::{AtomicBool, AtomicUsize, Ordering};
use std::task::{Context, Poll};
use std::time::{Duration, Instant};

/// A conformant stream that is "not ready yet, try again" a number of times: it wakes the task during the poll and returns Pending
struct SelfWaking { left: usize, dropped: Arc<AtomicBool> }
impl Stream for SelfWaking {
    type Item = ();
    fn poll_next(mut self: Pin<&mut Self>, cx: &mut Context<'_>) -> Poll<Option<()>> {
        if self.left > 0 { self.left -= 1; cx.waker().wake_by_ref(); Poll::Pending } else { Poll::Ready(None) }
    }
}
impl Drop for SelfWaking { fn drop(&mut self) { self.dropped.store(true, Ordering::SeqCst); } }

struct Canary(Arc<AtomicUsize>);
impl Drop for Canary { fn drop(&mut self) { self.0.fetch_add(1, Ordering::SeqCst); } }

#[test]
fn last_user_reference_dropped_while_the_pipe_is_polling() {
    for iter in 0..3000u64 {
        let stream_dropped  = Arc::new(AtomicBool::new(false));
        let value_drops     = Arc::new(AtomicUsize::new(0));
        let target          = Arc::new(Desync::new(Canary(Arc::clone(&value_drops))));
        pipe_in(Arc::clone(&target), SelfWaking { left: 3000, dropped: Arc::clone(&stream_dropped) }, |_, _| future::ready(()).boxed());
        for _ in 0..(iter % 50) * 20 { std::hint::spin_loop(); }
        drop(target);                                       // the user's last reference goes away while the pipe is busy polling

        let start = Instant::now();
        while !(stream_dropped.load(Ordering::SeqCst) && value_drops.load(Ordering::SeqCst) == 1) {
            if start.elapsed() > Duration::from_secs(5) {
                eprintln!("iteration {}: value destroyed {} times, input stream released: {} - five seconds after the last user reference was dropped", iter, value_drops.load(Ordering::SeqCst), stream_dropped.load(Ordering::SeqCst));
                std::process::exit(1);
            }
            std::thread::yield_now();
        }
    }
}
