#!/usr/bin/env python3
"""Writes seeded/<id>/meta.json from the verification log plus the summaries below"""
import json, os, sys
NEEDS = {
 'C01-a': ("SyncFuture fields reordered so that the completion sender is dropped before the user future", "a future_sync whose inner future has started and is suspended, then dropped (cancelled) while another operation is queued behind it, the inner future's destructor still using the value, and a pool thread to run the released queue"),
 'C02-a': ("sync(): an Idle queue always takes the immediate path (queue-length guard removed)", "a foreground runner releasing the queue in two steps while another thread calls sync() exactly between 'state = Idle' and reschedule_queue, with jobs queued meanwhile"),
 'C03-a': ("next_to_run inspects only the head of the schedule (while let -> if let)", "pool exactly at its maximum with every thread busy; a foreground sync steals a Pending queue leaving a stale schedule entry; another queue scheduled behind it; a pool thread pops only the stale head and goes dormant"),
 'C04-a': ("reschedule_queue notifies only the first live blocked sync waiter", ">= 2 threads blocked in sync's wait-for-background path on one queue, the queue released through reschedule_queue (another caller / polling task / waker), and no pool thread free or spawnable (pool 0 or saturated)"),
 'C05-a': ("sync(): an Idle queue always takes the immediate path; seen through Drop", "a future suspended on the queue on a pool thread being woken from another thread while the last owner is dropped: the drop's sync lands between the waker's 'state = Idle' and reschedule_queue and frees the value with the future still queued"),
 'C06-a': ("run_one_job_now parks until state == Running only (AwokenWhileRunning no longer ends the park loop)", "the queue run by a thread inside sync() that has really parked, and the waker called at least twice so that the second wake lands before the parked thread re-reads the state"),
 'C07-a': ("drain_queue registers only the polling context as waker (DoubleWaker removed)", "a polling task that claimed the queue itself, the operation returning Pending in that poll, the stale schedule entry already consumed, and the future then dropped / never polled again"),
 'C08-a': ("reschedule_queue no longer reschedules a queue in WaitingForPoll", "a future_sync future whose poll claimed the queue, dropped before completion, after a pool thread has already popped and skipped the queue's stale schedule entry"),
 'C09-a': ("try_sync: an Idle queue is always claimed and run (queue-length guard removed)", "two threads on one object; try_sync taking the lock between a runner's 'state = Idle' and reschedule_queue (or a waker's WaitingForWake -> Idle) while jobs are queued"),
 'C10-a': ("next_to_run inspects only the head of the schedule", "small pool with all threads momentarily occupied, a stale schedule entry (sync stole a Pending queue) at the head, another object's queue behind it, then a pool thread becoming free"),
 'C15-a': ("ActiveQueue guard marks the queue Panicked only if its state is exactly Running (forgets AwokenWhileRunning)", "a wake of one of the queue's wakers arriving while a job of that queue is executing, and a panic in that job (or a later job of the same drain batch) before any job returns Pending"),
 'C17-a': ("spawn_thread_if_less_than_maximum: length checked under the threads lock, thread created and pushed after re-taking it", "pool below its maximum and two scheduling calls racing through 'no dormant thread, spawn one' within the duration of a thread spawn"),
 'C11-a': ("pipe_in: end of the input stream reports 'keep polling' (Ready(None) merged with Pending), so the poll function is never cleared", "an input stream that still holds the waker of its last poll when it ends (register-first streams, e.g. AtomicWaker users): the cycle stream -> waker -> context -> poll function -> stream is never broken"),
 'C13-a': ("next_to_run no longer takes over a queue in WaitingForPoll", "the suspension reached through the poll of a later future of the same queue (queue parked in WaitingForPoll), that future then dropped/detached/not polled again, and the resumer used or dropped afterwards"),
 'C16-a': ("pipe(): the poll function holds a strong reference to the output stream's core instead of a weak one", "the producer throttled by back-pressure (its only waker parked in the core) when the output stream is dropped, input silent afterwards: the cycle core -> waker -> context -> poll function -> core keeps input stream and closure alive"),
 'C12-a': ("pipe(): buffer-full check and back-pressure registration in two separate critical sections", "back-pressure reached and a consumer pop landing exactly between the producer's 'buffer full' check and its registration, with no later repairing poll by the consumer"),
}
for id in sorted(os.listdir('/verif/seeded')):
    d = '/verif/seeded/' + id
    if not os.path.exists(d + '/verify.log') or id not in NEEDS: continue
    log = open(d + '/verify.log').read().strip().split('\n')
    prop = id.split('-')[0]
    meta = dict(id=id, property=prop, change=NEEDS[id][0], needs_to_manifest=NEEDS[id][1],
                source='independent sub-agent that was given only the property text and its own scratch worktree of /repo',
                verified_in_scratch_worktree=log,
                what_was_run=['tools/verify_seeded.sh /tmp/mut/%s %s : cargo build with and without --features verif-hooks; baseline suite with the change; the demonstration 3x with the change (must fail) and 3x without (must pass)' % (prop, id),
                              'SEED=11 tools/run_mutants.sh seeded/%s/patch.diff : git -C /repo apply; quick check of %s (native engine, stop at first violation); git -C /repo checkout -- .' % (id, prop)])
    json.dump(meta, open(d + '/meta.json', 'w'), indent=1)
    print('meta', id)
