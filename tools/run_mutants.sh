#!/bin/bash
# Applies each mutant patch to /repo, runs the quick check of its property (native engine unless ENGINES is set), reverts.
# usage: tools/run_mutants.sh [patch files...]   (default: mutants/*.patch and seeded/*/patch.diff)
# NOTE: nothing else may use /repo while this runs; evidence files written here describe mutated trees - regenerate afterwards.
cd /verif
files=("$@"); [ ${#files[@]} -eq 0 ] && files=(mutants/*.patch seeded/*/patch.diff)
for f in "${files[@]}"; do
  [ -f "$f" ] || continue
  prop=$(grep -m1 -oE "property: C[0-9]+" "$f" | grep -oE "C[0-9]+")
  [ -z "$prop" ] && prop=$(python3 -c "import json,sys,os;print(json.load(open(os.path.join(os.path.dirname('$f'),'meta.json')))['property'])" 2>/dev/null)
  git -C /repo checkout -q -- . ; git -C /repo apply "$(realpath "$f")" || { echo "RESULT $f apply-failed"; continue; }
  start=$(date +%s)
  out=$(VERIF_ENGINES=${ENGINES:-native} VERIF_STOP_ON_VIOLATION=1 VERIF_SEED=${SEED:-11} ./check $prop --tier ${TIER:-quick} 2>&1); rc=$?
  git -C /repo checkout -q -- .
  # the evidence file just written describes a mutated tree: put the committed one (clean tree) back
  git -C /verif checkout -q -- evidence/$prop.json 2>/dev/null
  echo "RESULT $f prop=$prop rc=$rc $(( $(date +%s)-start ))s :: $(echo "$out" | grep -E "VIOLATION|KNOWN" | head -2 | tr '\n' ' ') $(echo "$out" | grep -E "^\[check\] [a-z_]+:" | head -1 | cut -c1-220)"
done
