#!/bin/bash
# Which lines of /repo/src do the workloads of the checks actually execute?  (reach of the monitors = reach of the workloads)
# Builds the harness with -Cinstrument-coverage in a scratch directory, runs every profile under two noise families,
# merges the profiles and writes a per-file summary plus the list of lines never executed to notes/coverage.txt.
# usage: tools/coverage.sh [runs-per-process (default 1500)]
# The scratch directory is removed at the end. This is a reach report, not a check: it decides nothing.
set -u
RUNS=${1:-1500}
S=$(mktemp -d /tmp/dh-cov.XXXXXX); trap 'rm -rf "$S"' EXIT
export CARGO_NET_OFFLINE=true CARGO_TARGET_DIR=$S/target RUSTFLAGS="-Cinstrument-coverage"
cd /verif/harness || exit 2
export LLVM_PROFILE_FILE=$S/build-%p.profraw   # build scripts run in the dependency's directory: keep their profiles out of /repo
cargo +nightly build --release --offline >$S/build.log 2>&1 || { tail -20 $S/build.log; exit 2; }
SYS=$(rustc +nightly --print sysroot); BIN=$(dirname "$(find "$SYS" -name llvm-profdata | head -1)")
mkdir -p $S/prof; i=0
for p in C01 C02 C03 C04 C05 C06 C07 C08 C09 C10 C11 C12 C13 C14 C15 C16 C17; do
  for fam in mix uniform none; do
    i=$((i+1))
    LLVM_PROFILE_FILE=$S/prof/$p-$fam-%p.profraw $S/target/release/dh --profile $p --seed $((9000+i)) --runs $RUNS --budget-ms 90000 --noise $fam \
        --out $S/$p-$fam.json --watchdog-s 60 >/dev/null 2>&1 &
    # 17 at a time
    [ $((i % 17)) -eq 0 ] && wait
  done
done
wait
$BIN/llvm-profdata merge -sparse $S/prof/*.profraw -o $S/all.profdata || exit 2
out=/verif/notes/coverage.txt
{
  echo "# lines of /repo/src executed by the workloads of the 17 profiles ($RUNS program runs x 3 noise families each, native engine)"
  echo "# repo $(git -C /repo rev-parse --short HEAD), harness $(git -C /verif rev-parse --short HEAD)$(git -C /verif diff --quiet || echo +dirty)"
  $BIN/llvm-cov report $S/target/release/dh -instr-profile=$S/all.profdata /repo/src 2>/dev/null | awk 'NR==1{print "file lines missed cover"} NR>2 && $1!~/^-/{print $1, $8, $9, $10}'
  echo
  echo "# lines never executed (file:line: source)"
  $BIN/llvm-cov show $S/target/release/dh -instr-profile=$S/all.profdata /repo/src --show-line-counts-or-regions 2>/dev/null \
    | awk '/^\/repo\/src/{f=$1; sub(":$","",f)} /^ +[0-9]+\| +0\|/{split($0,a,"|"); gsub(/ /,"",a[1]); line=$0; sub(/^ +[0-9]+\| +0\|/,"",line); print f ":" a[1] ": " line}'
} > $out
head -25 $out
