#!/usr/bin/env python3
"""Turns the output of tools/run_mutants.sh (RESULT lines) into the table of DESIGN.md section 5.3 (written to mutants/RESULTS.md)"""
import json, os, re, sys
rows = []
for line in open(sys.argv[1]):
    m = re.match(r'RESULT (\S+) prop=(C\d+) rc=(\d+) (\d+)s :: (.*)', line)
    if not m: continue
    f, prop, rc, secs, rest = m.groups()
    if f.startswith('seeded/'):
        id = f.split('/')[1]
        meta = json.load(open(os.path.join('/verif', os.path.dirname(f), 'meta.json')))
        what, origin = meta['change'], 'sub-agent'
    else:
        id = os.path.basename(f).replace('.patch', '')
        what = open(os.path.join('/verif', f)).read().split('\n')[1].lstrip('# ')
        origin = 'own'
    kinds = [k for k in re.findall(r'\[check\] ([a-z_]+):', rest) if k not in ('note', 'sweep')]
    if not kinds:
        # the RESULT line only carries the first [check] line: read the violation kind from the recorded witness
        for rp in re.findall(r'replay=(\S+)', rest):
            try: kinds.append(json.load(open(rp))['kind'])
            except Exception: pass
    rows.append((prop, id, origin, what, 'caught in %s s' % secs if rc == '1' else 'MISSED (rc=%s)' % rc, kinds[0] if kinds else ''))
rows.sort()
out = ['| property | change | origin | what it does | quick check of the property (native engine) | first violation kind |', '|---|---|---|---|---|---|']
for r in rows: out.append('| %s | `%s` | %s | %s | %s | %s |' % r)
open('/verif/mutants/RESULTS.md', 'w').write('\n'.join(out) + '\n')
print('\n'.join(out))
