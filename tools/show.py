#!/usr/bin/env python3
"""Pretty-print the violations (program, diagnosis, history) stored in a dh output or replay file"""
import json, sys
d = json.load(open(sys.argv[1]))
which = int(sys.argv[2]) if len(sys.argv) > 2 else 0
vs = d['violations'] if 'violations' in d else [d]
seen = set()
for v in vs:
    print('VIOLATION', v['property'], v['kind'], v['signature']); print('   ', v['detail'])
r = vs[which]['run']
p = r['program']
print('run', r['run_index'], 'plan', r['noise_plan'], 'outcome', r['outcome'])
print({k: p[k] for k in p if k not in ('ops', 'threads', 'firer', 'pipes')})
for o in p['ops']:
    print('  op', o['id'], 'obj', o['obj'], o['kind'], o['disp'], o.get('after_gate', ''), 'nested_in=%s' % o['nested_in'] if 'nested_in' in o else '', o['body'])
for i, t in enumerate(p['threads']): print('  thread', i, t)
print('  firer', p['firer'], 'prefired', p['prefired'])
for pp in p['pipes']: print('  pipe', pp)
for x in r['diagnosis']: print('  D', x)
for h in r.get('history', []):
    print('  H op %(op)d obj %(obj)d %(kind)s/%(disp)s inv %(inv)d ret %(ret)d start %(start)d end %(end)d resolve %(resolve)d runs %(runs)d susp %(suspensions)d runner %(runner_class)d out %(outcome)d polls %(waiter_polls_before_result)d canc %(cancelled)s dropped %(future_dropped_at)d' % h, h.get('resumer_used_at', ''))
for pp in r.get('pipes', []): print('  P', pp)
