#!/bin/bash
# usage: recheck_suite.sh <worktree> <seeded-id>
# The first verification of a seeded change may have run while the machine was overloaded by other jobs: the suite's own 500 ms
# timeouts then fire in tests unrelated to the change. This re-runs the baseline suite with the change (demonstration moved away)
# and then, each on its own, every test that still failed apart from the two that fail / flake on the unchanged tree.
wt=$1; id=$2; cd $wt || exit 2
log=/verif/seeded/$id/verify.log
mv tests/seeded_demo.rs /tmp/seeded_demo_$id.rs 2>/dev/null
out=$(cargo nextest run --workspace --no-fail-fast --test-threads 8 --offline 2>&1)
fails=$(echo "$out" | grep -E "^\s+(FAIL|TIMEOUT)" | sed -E 's/.*desync::desync //' | sort -u | grep -v -E "panicking_panics_with_future_queues|async_only_runs_once")
echo "suite with change, re-run (load $(cut -d' ' -f1 /proc/loadavg)): $(echo "$out" | grep Summary | tr -s ' '); failures other than the two known ones: ${fails:-none}" | tee -a $log
for t in $fails; do
  r=""; for i in 1 2 3; do cargo nextest run --workspace --offline -E "test(=$t)" >/dev/null 2>&1; r="$r $?"; done
  echo "  $t alone, 3 runs (exit codes):$r" | tee -a $log
done
mv /tmp/seeded_demo_$id.rs tests/seeded_demo.rs 2>/dev/null
