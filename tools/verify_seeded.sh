#!/bin/bash
# usage: verify_seeded.sh <worktree> <seeded-id>   e.g. /tmp/mut/C06 C06-a
# Confirms in the scratch worktree that the seeded change compiles, passes the existing suite, and that its demonstration
# fails with the change and passes without it; then stores patch, demo and meta under /verif/seeded/<id>/.
wt=$1; id=$2; prop=${id%%-*}
cd $wt || exit 2
out=/verif/seeded/$id; mkdir -p $out
git diff -- src > $out/patch.diff
[ -s $out/patch.diff ] || { echo "no src change"; exit 2; }
sed -i "1i # property: $prop" $out/patch.diff
cp tests/seeded_demo.rs $out/seeded_demo.rs 2>/dev/null
cp SEEDED.md $out/SEEDED.md 2>/dev/null
log=$out/verify.log; : > $log
b1=$(cargo build --offline 2>&1 | tail -1); b2=$(cargo build --offline --features verif-hooks 2>&1 | tail -1)
echo "build: $b1 | hooks: $b2" | tee -a $log
mv tests/seeded_demo.rs /tmp/seeded_demo_$id.rs
suite=$(cargo nextest run --workspace --no-fail-fast --test-threads 8 --offline 2>&1 | grep -E "^\s+(FAIL|TIMEOUT)|Summary" | sort | uniq | tr '\n' ';')
mv /tmp/seeded_demo_$id.rs tests/seeded_demo.rs
echo "suite with change: $suite" | tee -a $log
with=""; for i in 1 2 3; do timeout 300 cargo test --offline --test seeded_demo >/dev/null 2>&1; with="$with $?"; done
echo "demo with change (exit codes, non-zero = fails as intended):$with" | tee -a $log
git diff -- src > /tmp/own_$id.patch; git checkout -q -- src
without=""; for i in 1 2 3; do timeout 300 cargo test --offline --test seeded_demo >/dev/null 2>&1; without="$without $?"; done
git apply /tmp/own_$id.patch
echo "demo without change (exit codes, 0 = passes):$without" | tee -a $log
