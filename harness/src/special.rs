//! Multi-phase scenarios: C15 (a panicking operation is contained) and C17 (pool maximum changes between phases)

use crate::gen;
use crate::model::*;
use crate::noise;
use crate::rt::Rng;
use crate::run::{Opts, RunResult};

/// C15: phase 0 makes one operation of object 0 panic in a chosen context; afterwards (once the unwinding thread is gone) every
/// scheduling attempt on object 0 must fail loudly, the healthy objects must work, and the pool must still hold its maximum
pub fn gen_c15(rng: &mut Rng, run_seed: u64, miri: bool) -> Program {
    let mut prog = Program::new(run_seed, "C15", "panic");
    prog.panics = true;
    prog.pool = rng.range(1, if miri { 2 } else { 3 }) as usize;
    prog.pool_mode = *rng.pick(&[PoolMode::Warm, PoolMode::Fresh, PoolMode::Eager]);
    let healthy = prog.pool;
    prog.n_obj = 1 + healthy;
    let variant = rng.below(12);
    let mut t0 = vec![];
    // sometimes some ordinary work on the victim first
    for _ in 0..rng.below(3) { let id = prog.add_op(0, Kind::Desync, Disp::None, vec![Step::Touch]); t0.push(TAct::Op(id)); }
    let mut old_future = None;
    let mut drop_dead_stream = false;
    // sometimes a wake-up lands while the panicking body is executing: the future wakes itself without suspending, or an earlier
    // future of the same object left a waker behind that fires during the panicking job
    let wake_kind = rng.below(3);
    if wake_kind == 2 && !matches!(variant, 2 | 3 | 8 | 10 | 11) { let id = prog.add_op(0, Kind::FutDesync, Disp::Detach, vec![Step::Touch, Step::StashWaker, Step::Touch]); t0.push(TAct::Op(id)); }
    match variant {
        0 => { prog.template = "panic_in_desync_job"; let id = prog.add_op(0, Kind::Desync, Disp::None, vec![Step::Touch, Step::Panic]); t0.push(TAct::Op(id)); }
        1 => { prog.template = "panic_in_sync_closure"; let id = prog.add_op(0, Kind::Sync, Disp::None, vec![Step::Touch, Step::Panic]); t0.push(TAct::Op(id)); }
        2 | 3 => {
            // The pool is saturated by blocked bodies on the healthy objects, so the victim's queue can only be run by callers.
            // 2: a queued job panics while the caller's sync drains the queue. 3: a caller that found the queue busy takes it over
            //    when it is released and runs its own panicking closure (the stealing-waiter path).
            prog.hold_phase = true;
            prog.held_objs = (1..=healthy).collect();
            let mut holder = vec![]; let mut healthy_holds = vec![]; let mut wait_saturated = vec![];
            for o in 1..=healthy { let h = prog.new_hold(); healthy_holds.push(h); let id = prog.add_op(o, Kind::Desync, Disp::None, vec![Step::Touch, Step::Hold(h)]); holder.push(TAct::Op(id)); wait_saturated.push(TAct::WaitStart(id)); }
            prog.threads.push(holder);
            // the victim is only touched once every pool thread is inside a blocked body
            t0.clear();
            t0.extend(wait_saturated);
            for _ in 0..rng.below(3) { let id = prog.add_op(0, Kind::Desync, Disp::None, vec![Step::Touch]); t0.push(TAct::Op(id)); }
            if variant == 2 {
                prog.template = "panic_in_job_drained_by_sync_pool_saturated";
                let id = prog.add_op(0, Kind::Desync, Disp::None, vec![Step::Touch, Step::Panic]); t0.push(TAct::Op(id));
                let id = prog.add_op(0, Kind::Sync, Disp::None, vec![Step::Touch]); t0.push(TAct::Op(id));
                prog.hold_groups.push((healthy_holds, None));
                prog.hold_wait_threads = Some(vec![0]);
            } else {
                prog.template = "panic_in_stealing_sync_waiter_pool_saturated";
                let hx = prog.new_hold();
                let runner = prog.add_op(0, Kind::Sync, Disp::None, vec![Step::Touch, Step::Hold(hx), Step::Touch]); t0.push(TAct::Op(runner));
                let waiter = prog.add_op(0, Kind::Sync, Disp::None, vec![Step::Touch, Step::Panic]);
                prog.threads.push(vec![TAct::WaitStart(runner), TAct::Op(waiter)]);
                prog.hold_wait_threads = Some(vec![]);
                prog.hold_wait_invoked = vec![waiter];
                prog.hold_groups.push((vec![hx], Some(waiter)));
                prog.hold_groups.push((healthy_holds, None));
            }
        }
        4 => { prog.template = "panic_in_awaited_future"; let id = prog.add_op(0, Kind::FutDesync, Disp::Await, vec![Step::Touch, Step::Yield, Step::Panic]); t0.push(TAct::Op(id)); }
        5 => { prog.template = "panic_in_detached_future"; let id = prog.add_op(0, Kind::FutDesync, Disp::Detach, vec![Step::Touch, Step::Yield, Step::Panic]); t0.push(TAct::Op(id)); }
        7 => { prog.template = "panic_in_future_sync_body"; let id = prog.add_op(0, Kind::FutSync, Disp::Await, if rng.chance(1, 2) { vec![Step::Touch, Step::Yield, Step::Panic] } else { vec![Step::Touch, Step::Panic] }); t0.push(TAct::Op(id)); }
        8 => { prog.template = "panic_in_try_sync_closure"; t0.clear(); let id = prog.add_op(0, Kind::TrySync, Disp::None, vec![Step::Touch, Step::Panic]); t0.push(TAct::Op(id)); }
        10 => {
            // The processing function of a pipe_in panics on the last item that arrives. The items arrive after the pipe has been
            // created (pipe_in itself ends with a sync on the target: a caller inside that sync when the operation panics on a pool
            // thread is the case the statement does not speak about), and nothing touches the input afterwards.
            prog.template = "panic_in_pipe_in_processing";
            let n = rng.range(1, 3) as usize;
            let mut items = vec![];
            prog.pusher.push(FAct::WaitThread0Done);
            for k in 0..n {
                let body = if k + 1 != n { vec![Step::Touch] } else if rng.chance(1, 2) { vec![Step::Touch, Step::Yield, Step::Panic] } else { vec![Step::Touch, Step::Panic] };
                let id = prog.add_op(0, Kind::PipeItem, Disp::None, body);
                prog.ops[id].pipe = Some(0);
                items.push(id);
                prog.pusher.push(FAct::Item(0));
            }
            prog.pipes.push(PipeDef { obj: 0, through: false, depth: 5, items, preloaded: 0, preclosed: false, mpsc: false, register_first: false, keep_waker: false, chain_to: None, self_wakes: 0 });
            t0.push(TAct::PipeCreate(0));
        }
        11 => {
            // The processing function of a pipe() panics, and the pipe holds the last strong reference to its target: the user has let
            // go of the object itself. Afterwards the output stream of the dead pipe is dropped (which releases that last reference
            // on the crate's internal disposal queue), and then a pipe on a healthy object is created, used and dropped.
            prog.template = "panic_in_pipe_processing_pipe_holds_last_reference";
            prog.mortal = Some(0);
            let n = rng.range(1, 2) as usize;
            let mut items = vec![];
            prog.pusher.push(FAct::WaitThread0Done);
            for k in 0..n {
                let body = if k + 1 != n { vec![Step::Touch] } else if rng.chance(1, 2) { vec![Step::Touch, Step::Yield, Step::Panic] } else { vec![Step::Touch, Step::Panic] };
                let id = prog.add_op(0, Kind::PipeItem, Disp::None, body);
                prog.ops[id].pipe = Some(0);
                items.push(id);
                prog.pusher.push(FAct::Item(0));
            }
            prog.pipes.push(PipeDef { obj: 0, through: true, depth: 5, items, preloaded: 0, preclosed: false, mpsc: false, register_first: false, keep_waker: false, chain_to: None, self_wakes: 0 });
            t0.clear();
            t0.push(TAct::PipeCreate(0)); t0.push(TAct::StashStream(0)); t0.push(TAct::ReleaseMortal);
            drop_dead_stream = true;
        }
        9 => { prog.template = "panic_in_after_closure"; let id = prog.add_op(0, Kind::After, Disp::Detach, vec![Step::Touch, Step::Panic]); let gate = prog.new_gate(); prog.ops[id].gate = Some(gate); t0.push(TAct::Op(id)); }
        _ => {
            prog.template = "panic_with_older_future_pending";
            let g = prog.new_gate();
            let id = prog.add_op(0, Kind::FutDesync, Disp::Detach, vec![Step::Touch, Step::Gate(g), Step::Panic]); t0.push(TAct::Op(id));
            let older = prog.add_op(0, Kind::FutDesync, Disp::Hold, vec![Step::Touch]); t0.push(TAct::Op(older));
            old_future = Some(older);
        }
    }
    for op in prog.ops.iter_mut() {
        if let Some(i) = op.body.iter().position(|s| *s == Step::Panic) {
            let fut = matches!(op.kind, Kind::FutDesync | Kind::FutSync);
            if wake_kind == 1 && fut { op.body.insert(i, Step::WakeOnly); }
            if wake_kind == 2 { op.body.insert(i, Step::FireStashed); }
        }
    }
    // attempts on the panicked object, by the same thread that holds the older future (phase 1 is a continuation of thread 0)
    let mut kinds: Vec<u8> = if cfg!(feature = "hooks") { vec![0, 1, 2, 3, 4, 5, 6, 7, 8, 9, 10, 11] } else { vec![0, 1, 2, 3, 4, 5, 10, 11] };
    rng.shuffle(&mut kinds);
    kinds.truncate(rng.range(2, 6) as usize);
    let mut attempts: Vec<TAct> = kinds.iter().map(|k| TAct::Attempt(*k, 0)).collect();
    if let Some(of) = old_future {
        // the older future is held by thread 0 of phase 0; joining happens there, after a blocking wait for the panic: simplest is to
        // let thread 0 itself make the attempts once the gate has fired and the panic has happened
        t0.push(TAct::Stash(of));
        attempts.insert(rng.below(attempts.len() as u64 + 1) as usize, TAct::AttemptJoin(of));
    }
    if drop_dead_stream { attempts.push(TAct::DropStream(0)); }
    prog.threads.insert(0, t0);
    prog.phases.push(Phase { name: "attempts_on_panicked_object", wait_pool_exit: true, threads: vec![attempts], ..Default::default() });

    // healthy objects: ordinary work scheduled after the unwinding thread is gone
    let mut ht = vec![];
    for _ in 0..rng.range(1, if miri { 1 } else { 2 }) {
        let mut acts = vec![];
        for _ in 0..rng.range(1, if miri { 2 } else { 5 }) {
            let o = 1 + rng.below(healthy as u64) as usize;
            let r = rng.below(10);
            let id = if r < 4 { prog.add_op(o, Kind::Desync, Disp::None, vec![Step::Touch]) }
                     else if r < 7 { prog.add_op(o, Kind::Sync, Disp::None, vec![Step::Touch]) }
                     else if r < 9 { prog.add_op(o, Kind::FutDesync, Disp::Detach, vec![Step::Touch, Step::Yield, Step::Touch]) }
                     else { prog.add_op(o, Kind::FutDesync, Disp::Await, vec![Step::Touch]) };
            acts.push(TAct::Op(id));
        }
        ht.push(acts);
    }
    if !miri && (drop_dead_stream || rng.chance(1, 4)) {
        // a pipe on a healthy object: created, fed one item, read, and its output stream dropped
        let o = 1 + rng.below(healthy as u64) as usize;
        let item = prog.add_op(o, Kind::PipeItem, Disp::None, vec![Step::Touch]);
        let p = prog.pipes.len();
        prog.ops[item].pipe = Some(p);
        prog.pipes.push(PipeDef { obj: o, through: true, depth: 5, items: vec![item], preloaded: 0, preclosed: false, mpsc: false, register_first: false, keep_waker: false, chain_to: None, self_wakes: 0 });
        ht.push(vec![TAct::PipeCreate(p), TAct::Push(p), TAct::Consume(p, 1), TAct::DropStream(p)]);
    }
    prog.phases.push(Phase { name: "healthy_objects_after_the_panic", threads: ht, ..Default::default() });

    // capacity probe: the pool must still be able to hold its maximum of simultaneously blocked bodies
    let mut occupy = vec![]; let mut acts = vec![];
    for o in 1..=healthy {
        let h = prog.new_hold();
        let id = prog.add_op(o, Kind::Desync, Disp::None, vec![Step::Touch, Step::Hold(h)]);
        acts.push(TAct::Op(id)); occupy.push(h);
    }
    prog.phases.push(Phase { name: "capacity_probe", threads: vec![acts], occupy, ..Default::default() });
    gen::finish_firer(rng, &mut prog, 0);
    prog
}

/// C17: bursts of scheduling calls racing to spawn, with the maximum lowered and raised between phases
pub fn gen_c17(rng: &mut Rng, run_seed: u64, miri: bool) -> Program {
    let mut prog = Program::new(run_seed, "C17", "pool_maximum_changes");
    prog.pool = rng.range(1, 3) as usize;
    prog.pool_mode = *rng.pick(&[PoolMode::Fresh, PoolMode::Fresh, PoolMode::Warm]);
    prog.n_obj = 3;
    let burst = |prog: &mut Program, rng: &mut Rng, max: usize| -> Vec<Vec<TAct>> {
        let mut threads = vec![];
        for _ in 0..rng.range(2, if miri { 2 } else { 4 }) {
            let mut acts = vec![]; let mut touched = vec![];
            for _ in 0..rng.range(1, if miri { 2 } else { 4 }) {
                let o = rng.below(3) as usize;
                let r = rng.below(10);
                let id = if r < 6 { prog.add_op(o, Kind::Desync, Disp::None, vec![Step::Touch]) }
                         else if r < 8 { prog.add_op(o, Kind::FutDesync, Disp::Detach, vec![Step::Touch, Step::Yield, Step::Touch]) }
                         else { prog.add_op(o, Kind::Sync, Disp::None, vec![Step::Touch]) };
                if !touched.contains(&o) { touched.push(o); }
                acts.push(TAct::Op(id));
            }
            if max == 0 { for o in touched { let id = prog.add_op(o, Kind::Sync, Disp::None, vec![Step::Touch]); acts.push(TAct::Op(id)); } }
            threads.push(acts);
        }
        threads
    };
    let p0 = prog.pool;
    prog.threads = burst(&mut prog, rng, p0);
    let mut cur = p0;
    for _ in 0..rng.range(1, if miri { 2 } else { 3 }) {
        let mut next = rng.below(4) as usize;
        if next == cur { next = (cur + 1) % 4; }
        let threads = burst(&mut prog, rng, next);
        prog.phases.push(Phase { name: "after_maximum_change", reconfig: Some(next), threads, ..Default::default() });
        cur = next;
    }
    // sometimes: two pool threads die from panicking jobs at about the same time while a third is inside a blocked body; then more work
    // arrives on a free object: both dead threads have to be replaced (and only they), without the maximum being exceeded
    if cur == 3 && !miri && rng.chance(1, 3) {
        prog.n_obj = 4; prog.panics = true;
        let p1 = prog.add_op(0, Kind::Desync, Disp::None, vec![Step::Touch, Step::Panic]);
        let p2 = prog.add_op(1, Kind::Desync, Disp::None, vec![Step::Touch, Step::Panic]);
        let h = prog.new_hold();
        let hold = prog.add_op(2, Kind::Desync, Disp::None, vec![Step::Touch, Step::Hold(h), Step::Touch]);
        let mut after = vec![];
        for _ in 0..rng.range(2, 4) { let id = prog.add_op(3, Kind::Desync, Disp::None, vec![Step::Touch]); after.push(TAct::Op(id)); }
        prog.phases.push(Phase { name: "two_pool_threads_die_then_more_work", threads: vec![vec![TAct::Op(p1), TAct::Op(p2), TAct::Op(hold)]], occupy: vec![h], dying_op: Some(p1), dying_op2: Some(p2), after_deaths: after, ..Default::default() });
    } else
    // sometimes: lower the maximum and despawn while pool threads are busy in bodies that will go on to schedule more work
    if cur >= 2 && !miri && rng.chance(1, 2) {
        let k = rng.range(1, cur as u64) as usize;
        let k = k.min(3);
        // sometimes one more pool thread has died from a panicking job by the time the maximum is lowered (one slot and one object
        // must be free for that job): the despawn then finds a dead thread among those it retires
        let with_dead = k < cur && k <= 2 && rng.chance(1, 2);
        let mut occupy = vec![]; let mut acts = vec![];
        for o in 0..k {
            let h = prog.new_hold();
            let nested = prog.add_op(if with_dead { (o + 1) % k } else { (o + 1) % 3 }, Kind::Desync, Disp::None, vec![Step::Touch]);
            let id = prog.add_op(o, Kind::Desync, Disp::None, vec![Step::Touch, Step::Hold(h), Step::Nest(nested), Step::Touch]);
            prog.ops[nested].parent = Some(id);
            acts.push(TAct::Op(id)); occupy.push(h);
        }
        let mut dying_op = None;
        if with_dead {
            let id = prog.add_op(k, Kind::Desync, Disp::None, vec![Step::Touch, Step::Panic]);
            acts.push(TAct::Op(id)); dying_op = Some(id); prog.panics = true;
        }
        let lower = rng.below(k as u64) as usize;   // below the number of busy threads: busy threads have to be retired
        prog.phases.push(Phase { name: if with_dead { "lower_maximum_while_busy_with_a_dead_thread" } else { "lower_maximum_while_busy" }, threads: vec![acts], occupy, lower_while_busy: Some(lower), dying_op, ..Default::default() });
        if lower == 0 {
            // whatever was scheduled from inside the retired jobs is carried by a sync afterwards
            let mut sweep = vec![]; for o in 0..3 { if with_dead && o == k { continue; } let id = prog.add_op(o, Kind::Sync, Disp::None, vec![Step::Touch]); sweep.push(TAct::Op(id)); }
            prog.phases.push(Phase { name: "after_lowering_to_zero", threads: vec![sweep], ..Default::default() });
        }
    }
    gen::finish_firer(rng, &mut prog, 0);
    prog
}

pub fn run_special(profile: &'static str, rng: &mut Rng, run_seed: u64, opts: &Opts, noise_family: &str, est_points: u64) -> RunResult {
    let miri = !opts.native;
    let prog = if profile == "C15" { gen_c15(rng, run_seed, miri) } else { gen_c17(rng, run_seed, miri) };
    if let Err(e) = gen::validate(&prog) { eprintln!("GENERATOR BUG: {}", e); std::process::exit(2); }
    let plan = if !opts.native || noise_family == "off" { noise::Plan::Off } else { noise::choose_plan(rng, noise_family, est_points) };
    if opts.verbose { let mut j = crate::rt::Json::new(); prog.to_json(&mut j); eprintln!("RUN plan {:?} program {}", plan, j.s); }
    crate::run::run_program(prog, opts, plan)
}
