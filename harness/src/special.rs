//! Multi-phase scenarios that do not fit the single-phase program model: C15 (panics) and C17 (pool maximum changes between phases)

use crate::rt::Rng;
use crate::run::{Opts, RunResult};

pub fn run_special(profile: &'static str, rng: &mut Rng, run_seed: u64, opts: &Opts) -> RunResult {
    let cfg = crate::gen::cfg_for(profile, !opts.native);
    let prog = crate::gen::mixed(rng, profile, &cfg, run_seed);
    crate::run::run_program(prog, opts, crate::noise::Plan::None)
}
