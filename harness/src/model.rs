//! The workload model: a *program* is data (so it can be printed, hashed and regenerated from its seed)

use crate::rt::{hcomb, Json};

pub type OpId = usize;

#[derive(Clone, Copy, PartialEq, Eq, Debug)]
pub enum Kind {
    Desync,
    Sync,
    TrySync,
    FutDesync,
    After,
    FutSync,
    Suspend,
    /// One item of a pipe (pipe_in or pipe); `obj` is the target object
    PipeItem,
}

impl Kind {
    pub fn name(self) -> &'static str {
        match self {
            Kind::Desync => "desync", Kind::Sync => "sync", Kind::TrySync => "try_sync", Kind::FutDesync => "future_desync",
            Kind::After => "after", Kind::FutSync => "future_sync", Kind::Suspend => "suspend", Kind::PipeItem => "pipe_item",
        }
    }
    pub fn code(self) -> u64 { self as u64 }
}

/// What the caller does with a returned future
#[derive(Clone, Copy, PartialEq, Eq, Debug)]
pub enum Disp {
    /// Not a future-returning operation
    None,
    Detach,
    DropNow,
    /// Awaited at once (in a thread: block_on; nested in a future body: .await)
    Await,
    /// SchedulerFuture::sync()
    SyncWait,
    /// Polled n times with a waker that does nothing, then dropped
    PollDrop(u8),
    /// Kept un-polled and joined (awaited) by a later `TAct::Join`
    Hold,
}

impl Disp {
    pub fn name(self) -> String {
        match self {
            Disp::None => "-".into(), Disp::Detach => "detach".into(), Disp::DropNow => "drop_unpolled".into(), Disp::Await => "await".into(),
            Disp::SyncWait => "sync_wait".into(), Disp::PollDrop(n) => format!("poll{}_drop", n), Disp::Hold => "hold_join_later".into(),
        }
    }
    pub fn code(self) -> u64 {
        match self { Disp::None => 0, Disp::Detach => 1, Disp::DropNow => 2, Disp::Await => 3, Disp::SyncWait => 4, Disp::PollDrop(n) => 16 + n as u64, Disp::Hold => 5 }
    }
}

#[derive(Clone, Copy, PartialEq, Eq, Debug)]
pub enum Step {
    /// Read-modify-write the plain fields of the payload and check the occupancy counter
    Touch,
    /// (future bodies) wake the own waker and return Pending once: the awoken-while-running path
    Yield,
    /// (future bodies) await gate g
    Gate(usize),
    /// Perform the nested operation (scheduled from inside this body)
    Nest(OpId),
    /// (closure bodies, C10/C17 only) block the running thread until hold gate h is opened by the monitor
    Hold(usize),
    /// Panic (C15 only)
    Panic,
    /// Drop a captured owner of the mortal object (the last-owner drop then happens inside this job)
    DropMortal,
    /// (future bodies) call the own waker without suspending: a legal spurious wake that lands while the job is executing
    WakeOnly,
    /// (future bodies) keep a clone of the current waker in the run context (an event source that holds on to an old waker)
    StashWaker,
    /// call every stashed waker: stale wake-ups arriving while this body is executing
    FireStashed,
    /// keep the body busy for a few microseconds (widens the window after a wake that landed during the poll)
    Pause,
    /// (last step of a future body) the future keeps its state - and with it the borrow of the value - after it has returned Ready,
    /// until the future object itself is dropped: a hand-written future, or a guard captured by a poll_fn closure
    Retain,
}

#[derive(Clone, Debug)]
pub struct OpDef {
    pub id:     OpId,
    pub obj:    usize,
    pub kind:   Kind,
    pub disp:   Disp,
    pub body:   Vec<Step>,
    /// For `After`: the gate whose future is awaited before the job runs
    pub gate:   Option<usize>,
    /// Nested inside this op's body
    pub parent: Option<OpId>,
    /// Pipe this item belongs to
    pub pipe:   Option<usize>,
}

/// What a caller thread does, in sequence
#[derive(Clone, Copy, PartialEq, Eq, Debug)]
pub enum TAct {
    Op(OpId),
    /// Await a held future
    Join(OpId),
    /// Drop a held future without awaiting it (future_sync: cancel)
    DropHeld(OpId),
    /// Use (resume) or drop the resumer obtained from suspend op
    Resume(OpId, bool),
    /// Give the resumer of the suspend op to the firer thread
    HandResumer(OpId),
    /// Drop this thread's owner of the mortal object
    ReleaseMortal,
    /// Drop this thread's owner of the mortal object while the thread is unwinding from a panic (caught by the harness)
    PanicRelease,
    /// Create pipe p (pipe_in or pipe) on its object
    PipeCreate(usize),
    /// Read up to n outputs from pipe p's stream (usize::MAX: until it ends)
    Consume(usize, usize),
    /// Drop the output stream of pipe p
    DropStream(usize),
    /// Push the next item into pipe p's input from this thread
    Push(usize),
    /// (C15) A scheduling attempt of the given kind on an object that has panicked: must fail loudly. Kinds: 0 desync, 1 sync,
    /// 2 try_sync, 3 future_desync, 4 after, 5 future_sync + await
    Attempt(u8, usize),
    /// (C15) Await a future that was created before the object panicked: must fail loudly
    AttemptJoin(OpId),
    /// Hand a held future over to a later phase
    Stash(OpId),
    /// Block until the op has started running
    WaitStart(OpId),
    /// Block until the scheduling call of the op has returned
    WaitRet(OpId),
    /// The consumer changes the back-pressure depth of pipe p's output stream (always followed by a read)
    SetDepth(usize, usize),
    /// Hand the output stream of pipe p to the run context, so that a thread of a later phase can drop it
    StashStream(usize),
    /// Block until the scheduling call of the op has been invoked (it may still be blocked inside the call)
    WaitInv(OpId),
    /// Block until the future returned by the op (a suspend request) has resolved
    WaitResolved(OpId),
    /// Block until the monitor has observed the whole process quiet and has evaluated the mid-run pipe conditions
    Checkpoint,
    /// Call every waker that an operation body stashed earlier (an event source that kept the waker of a completed operation)
    FireStashedWakers,
}

/// What the firer thread does, in sequence, with a small seeded pause before each
#[derive(Clone, Copy, PartialEq, Eq, Debug)]
pub enum FAct {
    Fire(usize),
    /// Block until the op's call has returned (used to show that try_sync does not block)
    WaitRet(OpId),
    /// Block until the op has started running
    WaitStart(OpId),
    Resume(OpId, bool),
    /// Push the next item into pipe p's input
    Item(usize),
    /// End pipe p's input stream
    Close(usize),
    /// Block until the output stream of pipe p has been dropped
    WaitDropped(usize),
    /// Block until the consumer of pipe p is waiting for an output (its poll returned Pending), or will not read any more
    WaitConsumerWaiting(usize),
    /// Block until caller thread 0 of the first phase has finished all its acts
    WaitThread0Done,
}

#[derive(Clone, Copy, PartialEq, Eq, Debug)]
pub enum PoolMode {
    /// Despawn everything first; threads are spawned lazily by the run itself
    Fresh,
    /// Keep whatever threads exist (down to the maximum); the rest is spawned lazily
    Warm,
    /// `set_max_threads`: spawn all threads up front
    Eager,
}

/// A later phase of a multi-phase scenario (C15, C17): started when the previous phase is complete
#[derive(Clone, Debug, Default)]
pub struct Phase {
    pub name:           &'static str,
    /// Change the pool maximum before the phase starts (at quiescence): (maximum, despawn first)
    pub reconfig:       Option<usize>,
    pub threads:        Vec<Vec<TAct>>,
    /// Wait until every pool thread that ran a panicking body has exited
    pub wait_pool_exit: bool,
    /// Holds opened when the phase starts
    pub open_first:     Vec<usize>,
    /// Holds that must become occupied during this phase (they are opened once they all are, or once everything is quiet)
    pub occupy:         Vec<usize>,
    /// The reconfiguration uses the public eager `set_max_threads` (which must itself get pending work going)
    pub eager:          bool,
    /// While the `occupy` holds are closed, everything on the objects that are not held must complete (C10)
    pub free_must_complete: bool,
    /// Lower the maximum to this value and despawn WHILE the `occupy` holds are occupied (the retiring threads are busy and go on
    /// to make scheduling calls once the holds are opened); the call must return (C17)
    pub lower_while_busy: Option<usize>,
    /// An operation of this phase that panics on a pool thread: the phase goes on once that thread is gone (nothing reaps it before the
    /// maximum is lowered, so the despawn finds a dead thread among those it retires)
    pub dying_op: Option<OpId>,
    /// A second operation of this phase that panics on (another) pool thread
    pub dying_op2: Option<OpId>,
    /// Issued by a fresh caller thread once the dying threads are gone and while the `occupy` holds are still closed; must complete then
    pub after_deaths: Vec<TAct>,
    /// (with `lower_while_busy`) holds of temporary bodies that are opened - and whose bodies must have ended - before the maximum is
    /// lowered: they occupied the first pool threads so that the bodies that stay blocked sit on the threads that will be retired.
    /// The `after_deaths` operations are then issued while the despawn is waiting for those threads, and must complete meanwhile.
    pub release_first: Vec<usize>,
}

#[derive(Clone, Debug)]
pub struct PipeDef {
    pub obj:        usize,
    /// true: `pipe` (has an output stream), false: `pipe_in`
    pub through:    bool,
    pub depth:      usize,
    /// Items of this pipe, in stream order
    pub items:      Vec<OpId>,
    /// How many items are already in the input when the pipe is created
    pub preloaded:  usize,
    /// Input is already ended when the pipe is created (after the preloaded items)
    pub preclosed:  bool,
    /// Use a futures::channel::mpsc receiver as the input instead of the scripted stream
    pub mpsc:       bool,
    /// The scripted stream stores the waker before it looks at its state (like AtomicWaker users do), so it still holds a
    /// waker when it reports an item or the end
    pub register_first: bool,
    /// The input stream calls its waker by reference and keeps it in its slot afterwards (until its next Pending poll replaces it)
    pub keep_waker: bool,
    /// The processing closure of this pipe owns the feeding end of that other pipe's input: when the closure is destroyed, the other
    /// pipe's input ends (a forwarding chain)
    pub chain_to:   Option<usize>,
    /// The scripted input answers its first polls with "not ready yet": it wakes the task during the poll and returns Pending
    /// (legal; the wake-up then runs inside the job that is polling the stream)
    pub self_wakes: usize,
}

#[derive(Clone, Debug)]
pub struct Program {
    pub run_seed:   u64,
    pub profile:    &'static str,
    pub template:   &'static str,
    pub pool:       usize,
    pub pool_mode:  PoolMode,
    pub n_obj:      usize,
    pub mortal:     Option<usize>,
    pub ops:        Vec<OpDef>,
    pub threads:    Vec<Vec<TAct>>,
    pub n_gates:    usize,
    pub n_holds:    usize,
    pub fire:       Vec<FAct>,
    /// Acts of the pusher thread (feeds pipe inputs); empty: no such thread
    pub pusher:     Vec<FAct>,
    /// Gates fired before any thread starts
    pub prefired:   Vec<usize>,
    pub stale_wakes: bool,
    pub pipes:      Vec<PipeDef>,
    /// Number of ungated ops that must complete while hold gates are closed (C10), per hold phase
    pub hold_phase: bool,
    /// Objects whose queue is occupied by a body blocked on a hold (C10); everything else must complete while holds are closed
    pub held_objs:  Vec<usize>,
    /// The panicking op, if any (C15)
    pub panics:     bool,
    pub phases:     Vec<Phase>,
    /// (hold phase) holds are opened group by group; after a group, wait until the given op has finished/panicked (or all is quiet)
    pub hold_groups: Vec<(Vec<usize>, Option<OpId>)>,
    /// (hold phase) caller threads that must have finished before any hold is opened (None: every thread that does not touch a held object)
    pub hold_wait_threads: Option<Vec<usize>>,
    /// (hold phase) operations whose call must have been invoked before any hold is opened
    pub hold_wait_invoked: Vec<OpId>,
    /// Hold used by `TAct::Checkpoint`
    pub checkpoint_hold: Option<usize>,
}

impl Program {
    pub fn new(run_seed: u64, profile: &'static str, template: &'static str) -> Program {
        Program {
            run_seed, profile, template, pool: 1, pool_mode: PoolMode::Warm, n_obj: 1, mortal: None, ops: vec![], threads: vec![], n_gates: 0,
            n_holds: 0, fire: vec![], pusher: vec![], prefired: vec![], stale_wakes: false, pipes: vec![], hold_phase: false, held_objs: vec![], panics: false, phases: vec![], hold_groups: vec![], hold_wait_threads: None, hold_wait_invoked: vec![], checkpoint_hold: None,
        }
    }

    pub fn add_op(&mut self, obj: usize, kind: Kind, disp: Disp, body: Vec<Step>) -> OpId {
        let id = self.ops.len();
        self.ops.push(OpDef { id, obj, kind, disp, body, gate: None, parent: None, pipe: None });
        id
    }

    pub fn new_gate(&mut self) -> usize { self.n_gates += 1; self.n_gates - 1 }
    pub fn new_hold(&mut self) -> usize { self.n_holds += 1; self.n_holds - 1 }

    /// Hash of the program's shape (not of its seed)
    pub fn shape_hash(&self) -> u64 {
        let mut h = hcomb(0x51a9e, self.pool as u64);
        h = hcomb(h, self.pool_mode as u64);
        h = hcomb(h, self.n_obj as u64);
        h = hcomb(h, self.mortal.map(|m| m as u64 + 1).unwrap_or(0));
        for op in &self.ops {
            h = hcomb(h, op.kind.code() * 1000 + op.disp.code() * 10 + op.obj as u64);
            for s in &op.body {
                h = hcomb(h, match s { Step::Touch => 1, Step::Yield => 2, Step::Gate(g) => 100 + *g as u64, Step::Nest(o) => 1000 + *o as u64,
                                       Step::Hold(x) => 50 + *x as u64, Step::Panic => 3, Step::DropMortal => 4, Step::WakeOnly => 5, Step::StashWaker => 6, Step::FireStashed => 7, Step::Pause => 8, Step::Retain => 9 });
            }
        }
        for t in &self.threads {
            h = hcomb(h, 0xffff);
            for a in t { h = hcomb(h, tact_code(a)); }
        }
        for f in &self.fire { h = hcomb(h, fact_code(f)); }
        for f in &self.pusher { h = hcomb(h, 7 + fact_code(f)); }
        for ph in &self.phases { h = hcomb(h, 0xfa5e + ph.reconfig.map(|m| m as u64 + 1).unwrap_or(0)); for t in &ph.threads { h = hcomb(h, 0xffff); for a in t { h = hcomb(h, tact_code(a)); } } }
        for p in &self.pipes { h = hcomb(h, (p.depth * 100 + p.items.len() * 4 + p.preloaded) as u64 + if p.through { 100000 } else { 0 }); }
        h
    }

    pub fn to_json(&self, j: &mut Json) {
        j.obj();
        j.kv_str("profile", self.profile).kv_str("template", self.template);
        j.kv_str("run_seed", &format!("{:#x}", self.run_seed));
        j.kv_num("pool_max", self.pool).kv_str("pool_mode", &format!("{:?}", self.pool_mode)).kv_num("objects", self.n_obj);
        match self.mortal { Some(m) => { j.kv_num("mortal_object", m); }, None => { j.key("mortal_object").raw("null"); } }
        j.kv_num("gates", self.n_gates).kv_num("holds", self.n_holds).kv_bool("stale_wakes", self.stale_wakes);
        j.key("prefired").arr(); for g in &self.prefired { j.num(*g); } j.end_arr();
        j.key("ops").arr();
        for op in &self.ops {
            j.obj();
            j.kv_num("id", op.id).kv_num("obj", op.obj).kv_str("kind", op.kind.name()).kv_str("disp", &op.disp.name());
            if let Some(g) = op.gate { j.kv_num("after_gate", g); }
            if let Some(p) = op.parent { j.kv_num("nested_in", p); }
            if let Some(p) = op.pipe { j.kv_num("pipe", p); }
            j.key("body").arr();
            for s in &op.body { j.string(&format!("{:?}", s)); }
            j.end_arr();
            j.end_obj();
        }
        j.end_arr();
        j.key("threads").arr();
        for t in &self.threads {
            j.arr();
            for a in t { j.string(&format!("{:?}", a)); }
            j.end_arr();
        }
        j.end_arr();
        j.key("firer").arr(); for f in &self.fire { j.string(&format!("{:?}", f)); } j.end_arr();
        j.key("pusher").arr(); for f in &self.pusher { j.string(&format!("{:?}", f)); } j.end_arr();
        j.key("later_phases").arr();
        for ph in &self.phases {
            j.obj();
            j.kv_str("name", ph.name);
            if let Some(m) = ph.reconfig { j.kv_num("new_pool_max", m); }
            j.key("threads").arr(); for t in &ph.threads { j.arr(); for a in t { j.string(&format!("{:?}", a)); } j.end_arr(); } j.end_arr();
            j.end_obj();
        }
        j.end_arr();
        j.key("pipes").arr();
        for p in &self.pipes {
            j.obj();
            j.kv_num("obj", p.obj).kv_bool("through", p.through).kv_num("depth", p.depth).kv_num("items", p.items.len())
                .kv_num("preloaded", p.preloaded).kv_bool("preclosed", p.preclosed).kv_bool("mpsc", p.mpsc).kv_bool("register_first", p.register_first).kv_bool("keep_waker", p.keep_waker);
            j.end_obj();
        }
        j.end_arr();
        j.end_obj();
    }
}

fn tact_code(a: &TAct) -> u64 {
    match a {
        TAct::Op(o) => 10_000 + *o as u64, TAct::Join(o) => 20_000 + *o as u64, TAct::DropHeld(o) => 30_000 + *o as u64,
        TAct::Resume(o, b) => 40_000 + *o as u64 * 2 + *b as u64, TAct::HandResumer(o) => 50_000 + *o as u64, TAct::ReleaseMortal => 7, TAct::PanicRelease => 8,
        TAct::PipeCreate(p) => 60_000 + *p as u64, TAct::Consume(p, n) => 70_000 + (*p as u64) * 100 + (*n as u64 % 97), TAct::DropStream(p) => 80_000 + *p as u64, TAct::Push(p) => 90_000 + *p as u64, TAct::Attempt(k, o) => 95_000 + *k as u64 * 10 + *o as u64, TAct::AttemptJoin(o) => 96_000 + *o as u64, TAct::Stash(o) => 97_000 + *o as u64, TAct::WaitStart(o) => 98_000 + *o as u64, TAct::WaitRet(o) => 98_500 + *o as u64, TAct::WaitInv(o) => 98_600 + *o as u64, TAct::WaitResolved(o) => 98_700 + *o as u64, TAct::StashStream(p) => 98_800 + *p as u64, TAct::SetDepth(p, d) => 98_900 + (*p as u64) * 10 + *d as u64, TAct::Checkpoint => 99_000, TAct::FireStashedWakers => 99_001,
    }
}

fn fact_code(a: &FAct) -> u64 {
    match a {
        FAct::Fire(g) => 100 + *g as u64, FAct::WaitRet(o) => 1000 + *o as u64, FAct::WaitStart(o) => 5000 + *o as u64,
        FAct::Resume(o, b) => 2000 + *o as u64 * 2 + *b as u64, FAct::Item(p) => 3000 + *p as u64, FAct::Close(p) => 4000 + *p as u64, FAct::WaitDropped(p) => 6000 + *p as u64, FAct::WaitConsumerWaiting(p) => 7000 + *p as u64, FAct::WaitThread0Done => 8000,
    }
}
