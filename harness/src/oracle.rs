//! Offline oracles over the recorded history of one run, and the coverage facts extracted from it

use crate::exec::*;
use crate::model::*;
use crate::rt::*;

#[derive(Default, Clone)]
pub struct RunStats {
    pub signature:  u64,
    /// bit i set: the run is non-trivial for property C(i+1) by the rule in DESIGN.md
    pub nontrivial: u32,
    pub pool_peak:  usize,
    pub pool_os:    usize,
    pub ordered_pairs: u64,
    pub cross_kind_pairs: u64,
    pub cross_thread_pairs: u64,
}

fn ld(a: &std::sync::atomic::AtomicU64) -> u64 { a.load(ORD) }

pub fn object_panicked(ctx: &RunCtx, obj: usize) -> bool {
    ctx.prog.ops.iter().enumerate().any(|(i, d)| d.obj == obj && ctx.recs[i].outcome.load(ORD) == 5)
}

/// Number of Touch steps performed on an object by operations that ran to completion; exact only if nothing was cancelled or panicked
pub fn expected_touches(ctx: &RunCtx, obj: usize) -> (bool, u64) {
    let mut exact = true; let mut n = 0u64;
    for (i, d) in ctx.prog.ops.iter().enumerate() {
        if d.obj != obj { continue; }
        let rec = &ctx.recs[i];
        if rec.start.load(ORD) == 0 { continue; }
        if rec.cancelled.load(ORD) || rec.outcome.load(ORD) == 5 || rec.end.load(ORD) == 0 { exact = false; continue; }
        n += d.body.iter().filter(|s| **s == Step::Touch).count() as u64 * rec.runs.load(ORD) as u64;
    }
    (exact, n)
}

/// Hash of what happened (not of the program): per-object start order, where each op ran, how often it was suspended, outcomes,
/// and where wake-ups landed
pub fn signature(ctx: &RunCtx) -> u64 {
    let mut order: Vec<(u64, usize)> = ctx.recs.iter().enumerate().filter(|(_, r)| r.start.load(ORD) != 0).map(|(i, r)| (r.start.load(ORD), i)).collect();
    order.sort();
    let mut h = 0x5157u64;
    for (_, i) in order {
        let r = &ctx.recs[i];
        let same_thread = r.run_tid.load(ORD) == r.call_tid.load(ORD);
        h = hcomb(h, (i as u64) << 20 | (r.runner.load(ORD) as u64) << 16 | (r.pendings.load(ORD).min(7) as u64) << 12 | (r.outcome.load(ORD) as u64) << 8 | (same_thread as u64) << 4 | r.wait_polls.load(ORD).min(3) as u64);
    }
    for (i, r) in ctx.recs.iter().enumerate() {
        if r.start.load(ORD) == 0 && r.inv.load(ORD) != 0 { h = hcomb(h, 0xdead0000 | (i as u64) << 4 | r.outcome.load(ORD) as u64); }
    }
    for (i, c) in ctx.wake_classes.iter().enumerate() {
        let n = c.load(ORD);
        if n > 0 { h = hcomb(h, 0xabc000 + i as u64); }
    }
    h
}

fn involves(ctx: &RunCtx, a: OpId, b: OpId, k: Kind) -> bool { ctx.prog.ops[a].kind == k || ctx.prog.ops[b].kind == k }

pub fn check_history(ctx: &RunCtx) -> RunStats {
    let prog = &ctx.prog;
    let n = prog.ops.len();
    let mut st = RunStats { signature: signature(ctx), ..Default::default() };

    // ---- C02 (and the order clauses of C08, C13): ret(A) < inv(B) on one object  =>  end(A) < start(B)
    for obj in 0..prog.n_obj {
        let ids: Vec<OpId> = (0..n).filter(|i| prog.ops[*i].obj == obj && ld(&ctx.recs[*i].inv) != 0 && prog.ops[*i].kind != Kind::PipeItem && prog.ops[*i].kind != Kind::Suspend).collect();
        for &a in &ids {
            let ra = &ctx.recs[a];
            let (ret_a, start_a, end_a) = (ld(&ra.ret), ld(&ra.start), ld(&ra.end));
            if ret_a == 0 || start_a == 0 { continue; }           // never returned / never ran (Busy try_sync, cancelled before its slot)
            for &b in &ids {
                if a == b { continue; }
                let rb = &ctx.recs[b];
                let (inv_b, start_b) = (ld(&rb.inv), ld(&rb.start));
                if start_b == 0 || ret_a >= inv_b { continue; }
                st.ordered_pairs += 1;
                if prog.ops[a].kind != prog.ops[b].kind { st.cross_kind_pairs += 1; }
                if ra.call_tid.load(ORD) != rb.call_tid.load(ORD) { st.cross_thread_pairs += 1; }
                if end_a == 0 || end_a >= start_b {
                    let (ka, kb) = (prog.ops[a].kind.name(), prog.ops[b].kind.name());
                    let detail = format!("object {}: op {} ({}, disposition {}) returned at stamp {} before op {} ({}) was invoked at {}, but op {} started at {} while op {} {}",
                        obj, a, ka, prog.ops[a].disp.name(), ret_a, b, kb, inv_b, b, start_b, a, if end_a == 0 { "had not finished".to_string() } else { format!("finished only at {}", end_a) });
                    ctx.sink.report("C02", "call_order_violated", format!("order:{}>{}", ka, kb), detail.clone());
                    if involves(ctx, a, b, Kind::TrySync) { ctx.sink.report("C09", "try_sync_ran_out_of_order", format!("order:{}>{}", ka, kb), detail.clone()); }
                    if involves(ctx, a, b, Kind::FutSync) { ctx.sink.report("C08", "future_sync_slot_order_violated", format!("order:{}>{}", ka, kb), detail.clone()); }
                }
            }
        }
    }

    // ---- items of one pipe are processed in stream order, one at a time
    for (p, pd) in prog.pipes.iter().enumerate() {
        let prop = if pd.through { "C12" } else { "C11" };
        let mut prev_end = 0u64; let mut prev = None;
        for &it in &pd.items {
            let r = &ctx.recs[it];
            let (s, e) = (ld(&r.start), ld(&r.end));
            if s == 0 { continue; }
            if s < prev_end { ctx.sink.report(prop, "pipe_items_out_of_order", "pipe_item_order".into(), format!("pipe {}: item op {} started at {} before the previous item {:?} finished at {}", p, it, s, prev, prev_end)); }
            if r.runs.load(ORD) != 1 { ctx.sink.report(prop, "pipe_item_processed_more_than_once", "pipe_item_dup".into(), format!("pipe {}: item op {} processed {} times", p, it, r.runs.load(ORD))); }
            prev_end = e; prev = Some(it);
        }
        // an item that was yielded after an item that was never processed: gap
        let mut seen_unprocessed = None;
        for &it in &pd.items {
            let r = &ctx.recs[it];
            if r.accepted.load(ORD) && ld(&r.start) == 0 { seen_unprocessed = Some(it); }
            else if ld(&r.start) != 0 { if let Some(u) = seen_unprocessed { ctx.sink.report(prop, "pipe_item_skipped", "pipe_item_skip".into(), format!("pipe {}: item op {} was yielded by the input but skipped; a later item {} was processed", p, u, it)); } }
        }
    }

    // ---- C13: suspension
    for (s, sd) in prog.ops.iter().enumerate() {
        if sd.kind != Kind::Suspend { continue; }
        let rs = &ctx.recs[s];
        if rs.outcome.load(ORD) != 1 { continue; }
        let (inv_s, ret_s, resolved) = (ld(&rs.inv), ld(&rs.ret), ld(&rs.resolve));
        let resumed = ld(&ctx.resume_stamp[s]);
        for (i, d) in prog.ops.iter().enumerate() {
            if i == s || d.obj != sd.obj || d.kind == Kind::Suspend || d.kind == Kind::PipeItem { continue; }
            let r = &ctx.recs[i];
            let (inv, ret, start, end) = (ld(&r.inv), ld(&r.ret), ld(&r.start), ld(&r.end));
            if inv == 0 { continue; }
            if ret != 0 && ret < inv_s && start != 0 && (end == 0 || end > resolved) && !(d.kind == Kind::FutSync && r.cancelled.load(ORD)) {
                ctx.sink.report("C13", "suspend_resolved_before_earlier_work_finished", "suspend_early".into(),
                    format!("object {}: suspend op {} resolved at {} but op {} ({}), scheduled before it, finished at {}", sd.obj, s, resolved, i, d.kind.name(), end));
            }
            if inv > ret_s && start != 0 && (resumed == 0 || start < resumed) {
                ctx.sink.report("C13", "operation_ran_while_suspended", format!("ran_suspended:{}", d.kind.name()),
                    format!("object {}: op {} ({}) was scheduled at {} after suspend op {} (returned {}), and started at {} before the resumer was used/dropped ({})", sd.obj, i, d.kind.name(), inv, s, ret_s, start, resumed));
            }
        }
    }

    // ---- exactly-once for everything that had to run
    for (i, d) in prog.ops.iter().enumerate() {
        let r = &ctx.recs[i];
        if !r.accepted.load(ORD) { continue; }
        let runs = r.runs.load(ORD);
        if ctx.prog.panics && runs <= 1 && object_panicked(ctx, d.obj) { continue; }   // whatever was queued behind the panic is dead with the queue
        let must = matches!(d.kind, Kind::Desync | Kind::Sync | Kind::FutDesync | Kind::After | Kind::PipeItem) || (d.kind == Kind::TrySync && r.outcome.load(ORD) == 1);
        if must && runs != 1 {
            let prop = match d.kind { Kind::Sync => "C04", Kind::TrySync => "C09", Kind::PipeItem => "C11", _ => "C03" };
            ctx.sink.report(prop, "not_run_exactly_once", format!("runs:{}:{}", d.kind.name(), runs.min(2)), format!("op {} ({} on object {}) ran {} times", i, d.kind.name(), d.obj, runs));
        }
        // C07: a resolved future_desync/after never resolves before the operation has finished
        if matches!(d.kind, Kind::FutDesync | Kind::After) && ld(&r.resolve) != 0 && (ld(&r.end) == 0 || ld(&r.end) > ld(&r.resolve)) {
            ctx.sink.report("C07", "resolved_before_operation_finished", "early_resolve".into(), format!("op {}: resolved at {}, finished at {}", i, ld(&r.resolve), ld(&r.end)));
        }
        // C08: the operation of future_sync runs only when its future is awaited: never before the first poll
        if d.kind == Kind::FutSync && ld(&r.start) != 0 && (ld(&r.polled_at) == 0 || ld(&r.start) < ld(&r.polled_at)) {
            ctx.sink.report("C08", "future_sync_ran_without_being_polled", "fs_before_poll".into(), format!("op {}: closure invoked at {}, the returned future was first polled at {} (0 = never)", i, ld(&r.start), ld(&r.polled_at)));
        }
        // C08: a cancelled future_sync never starts after the drop of its future has returned
        if d.kind == Kind::FutSync && ld(&r.dropped_at) != 0 && ld(&r.start) > ld(&r.dropped_at) {
            ctx.sink.report("C08", "future_sync_started_after_cancel", "fs_after_cancel".into(), format!("op {}: future dropped at {}, closure invoked at {}", i, ld(&r.dropped_at), ld(&r.start)));
        }
    }

    st.nontrivial = nontrivial(ctx, &st);
    st
}

/// Checks that can only be made after the closing phase (all owners dropped)
pub fn check_after_close(ctx: &RunCtx, _st: &mut RunStats) {
    for (i, o) in ctx.objs.iter().enumerate() {
        let drops = o.drops.load(ORD);
        if drops == 1 { continue; }
        if ctx.prog.panics && object_panicked(ctx, i) { continue; }   // the value of a panicked object is deliberately leaked
        let has_dropped_stream = ctx.prog.pipes.iter().enumerate().any(|(p, pd)| pd.obj == i && pd.through && ctx.pipes[p].stream_dropped.load(ORD) != 0);
        if drops == 0 && has_dropped_stream {
            // decided by the pipe release check (the release is asynchronous); see pipes_released
            continue;
        }
        ctx.sink.report("C05", "value_not_destroyed_exactly_once", format!("drops:{}", drops.min(2)), format!("object {}: all owners are gone; the protected value was destroyed {} times", i, drops));
    }
}

/// What must eventually hold for pipes once everything is closed; returns the first unmet condition
pub fn pipes_unreleased(ctx: &RunCtx) -> Option<(&'static str, String, String)> {
    for (p, pd) in ctx.prog.pipes.iter().enumerate() {
        let st = &ctx.pipes[p];
        if st.created.load(ORD) == 0 { continue; }
        if ctx.prog.panics && object_panicked(ctx, pd.obj) { continue; }   // a pipe into a panicked object is dead with its queue
        let input_closed = st.closed_stamp.load(ORD) != 0;
        let stream_dropped = st.stream_dropped.load(ORD) != 0;
        let obj_dead_then_event = {
            let dead = ctx.objs[pd.obj].drop_stamp.load(ORD);
            dead != 0 && (input_closed && st.closed_stamp.load(ORD) > dead || pd.items.iter().any(|it| ctx.recs[*it].ret.load(ORD) != 0 && ctx.recs[*it].inv.load(ORD) > dead))
        };
        let must_release = input_closed && !stream_dropped && ctx.objs[pd.obj].drops.load(ORD) == 0 || stream_dropped || obj_dead_then_event
            || (input_closed && pd.items.iter().all(|it| ctx.recs[*it].end.load(ORD) != 0 || ctx.recs[*it].inv.load(ORD) == 0));
        if !must_release { continue; }
        let (idr, cdr) = (st.input_drops.load(ORD), st.closure_drops.load(ORD));
        if idr != 1 || cdr != 1 {
            let prop = if pd.through && stream_dropped && !input_closed { "C16" } else if pd.through { "C12" } else { "C11" };
            let class = st.drop_class.load(ORD);
            return Some((prop, format!("pipe_not_released:{}:class{}", if pd.through { "pipe" } else { "pipe_in" }, class),
                format!("pipe {} on object {}: input stream dropped {} times, processing closure dropped {} times (input ended: {}, output stream dropped: {} [class {}: 1 idle, 2 mid-item, 3 throttled], target destroyed: {})",
                    p, pd.obj, idr, cdr, input_closed, stream_dropped, class, ctx.objs[pd.obj].drops.load(ORD))));
        }
        if pd.through && stream_dropped && ctx.objs[pd.obj].drops.load(ORD) != 1 {
            return Some(("C16", format!("pipe_kept_target_alive:class{}", st.drop_class.load(ORD)), format!("pipe {}: output stream dropped and all other owners gone, but object {} was destroyed {} times", p, pd.obj, ctx.objs[pd.obj].drops.load(ORD))));
        }
    }
    None
}

/// Final pipe checks after the run is complete
pub fn check_pipes_final(ctx: &RunCtx) {
    for (p, pd) in ctx.prog.pipes.iter().enumerate() {
        let st = &ctx.pipes[p];
        if st.created.load(ORD) == 0 || !pd.through { continue; }
        let outs = st.outputs.lock().unwrap().len();
        let processed = pd.items.iter().filter(|it| ctx.recs[**it].end.load(ORD) != 0).count();
        if st.out_ended.load(ORD) {
            let pushed = st.pushed.load(ORD).min(pd.items.len());
            if st.closed_stamp.load(ORD) == 0 { ctx.sink.report("C12", "pipe_output_ended_before_input", "pipe_early_end".into(), format!("pipe {}: output stream ended although the input was never ended", p)); }
            if outs != pushed { ctx.sink.report("C12", "pipe_output_lost", "pipe_out_lost".into(), format!("pipe {}: input yielded {} items, output ended after {} outputs", p, pushed, outs)); }
        }
        if outs > processed { ctx.sink.report("C12", "pipe_output_duplicated", "pipe_out_dup".into(), format!("pipe {}: {} outputs read but only {} items processed", p, outs, processed)); }
    }
}

fn bit(p: u32) -> u32 { 1 << (p - 1) }

/// Which properties this run is a non-trivial case for (rules of DESIGN.md section 3)
fn nontrivial(ctx: &RunCtx, st: &RunStats) -> u32 {
    let prog = &ctx.prog;
    let n = prog.ops.len();
    let mut m = 0u32;
    let r = |i: usize| &ctx.recs[i];

    // C01: a second op of the same object was invoked while another's span was open, from a different context
    // C04: a sync ran on another thread than its caller, or parked on a pending future
    // C06/C07/C08/C09/C13: see below
    for obj in 0..prog.n_obj {
        let ids: Vec<usize> = (0..n).filter(|i| prog.ops[*i].obj == obj && ld(&r(*i).inv) != 0).collect();
        for &a in &ids {
            let (sa, ea) = (ld(&r(a).start), ld(&r(a).end));
            if sa == 0 { continue; }
            for &b in &ids {
                if a == b { continue; }
                let ib = ld(&r(b).inv);
                if ib > sa && (ea == 0 || ib < ea) && r(a).run_tid.load(ORD) != r(b).call_tid.load(ORD) { m |= bit(1); }
            }
        }
    }
    if st.cross_kind_pairs > 0 && st.cross_thread_pairs > 0 { m |= bit(2); }
    for i in 0..n {
        let d = &prog.ops[i]; let rec = r(i);
        let started = ld(&rec.start) != 0;
        match d.kind {
            Kind::Sync => {
                if started && rec.run_tid.load(ORD) != rec.call_tid.load(ORD) { m |= bit(4); }
            }
            Kind::TrySync => {
                let o = rec.outcome.load(ORD);
                // overlapped (by stamps) the span or return of another op on the same object
                let (inv, ret) = (ld(&rec.inv), ld(&rec.ret));
                for j in 0..n {
                    if j == i || prog.ops[j].obj != d.obj { continue; }
                    let (e, rt) = (ld(&r(j).end), ld(&r(j).ret));
                    if (e > inv && e < ret) || (rt > inv && rt < ret) { m |= bit(9); }
                }
                if o == 2 && (0..n).any(|j| prog.ops[j].kind == Kind::TrySync && prog.ops[j].obj == d.obj && r(j).outcome.load(ORD) == 1) { m |= bit(9); }
            }
            Kind::FutDesync | Kind::After => {
                if rec.pendings.load(ORD) > 0 && ld(&rec.end) != 0 { m |= bit(6); }
                if rec.wait_polls.load(ORD) > 0 { m |= bit(7); }
            }
            Kind::FutSync => {
                if rec.cancelled.load(ORD) { m |= bit(8); }
                if started && rec.wait_polls.load(ORD) > 0 { m |= bit(8); }
                if started && rec.pendings.load(ORD) > 0 { m |= bit(6); }
            }
            Kind::Suspend => {
                let ret_s = ld(&rec.ret); let res = ld(&ctx.resume_stamp[i]);
                if rec.outcome.load(ORD) == 1 && (0..n).any(|j| j != i && prog.ops[j].obj == d.obj && ld(&r(j).inv) > ret_s && (res == 0 || ld(&r(j).inv) < res)) { m |= bit(13); }
            }
            Kind::PipeItem => {
                // arrived while the previous poll job was still in flight / producer throttled / consumer parked
                let pd = &prog.pipes[d.pipe.unwrap()];
                if let Some(k) = pd.items.iter().position(|x| *x == i) {
                    if k > 0 {
                        let prev = r(pd.items[k - 1]);
                        if ld(&rec.inv) != 0 && ld(&prev.start) != 0 && ld(&rec.inv) > ld(&prev.start) && (ld(&prev.end) == 0 || ld(&rec.inv) < ld(&prev.end)) { m |= if pd.through { bit(12) } else { bit(11) }; }
                    }
                }
            }
            Kind::Desync => {}
        }
    }
    // C03: a scheduling call was made while a pool thread was going dormant or a foreground runner released the queue:
    // approximated from the history as "some op was invoked within a few stamps of another op of any object finishing"
    {
        let mut ends: Vec<u64> = (0..n).map(|i| ld(&r(i).end)).filter(|e| *e != 0).collect();
        ends.sort();
        for i in 0..n {
            let inv = ld(&r(i).inv);
            if inv == 0 || !matches!(prog.ops[i].kind, Kind::Desync | Kind::FutDesync | Kind::After) { continue; }
            let k = ends.partition_point(|e| *e < inv);
            if k > 0 && inv - ends[k - 1] <= 3 { m |= bit(3); }
            if k < ends.len() && ends[k] - inv <= 3 { m |= bit(3); }
        }
    }
    // C05: the last owner was dropped while work of that object was unfinished
    if let Some(mo) = prog.mortal {
        let ds = ctx.objs[mo].drop_stamp.load(ORD);
        if ds != 0 && (0..n).any(|i| prog.ops[i].obj == mo && ld(&r(i).inv) != 0 && ld(&r(i).end) != 0 && ld(&r(i).end) + 40 > ds) { m |= bit(5); }
    }
    for (p, pd) in prog.pipes.iter().enumerate() {
        let ps = &ctx.pipes[p];
        if pd.through && (ps.consumer_parks.load(ORD) > 0) { m |= bit(12); }
        if pd.through && ps.stream_dropped.load(ORD) != 0 { m |= bit(16); }
        if !pd.through && ps.input.lock().unwrap().pending_polls > 0 { m |= bit(11); }
    }
    if prog.hold_phase || prog.phases.iter().any(|p| p.free_must_complete) { m |= bit(10); }
    if prog.panics && ctx.expected_panic_seen.load(ORD) > 0 { m |= bit(15); }
    if crate::run::SPAWN_EVENTS.load(std::sync::atomic::Ordering::Relaxed) > 0 { m |= bit(17); }
    // C14: a lifetime-erasing site was reached concurrently with another thread
    if m & (bit(4) | bit(5) | bit(8)) != 0 { m |= bit(14); }
    m
}

pub fn history_json(ctx: &RunCtx, j: &mut Json) {
    j.arr();
    for (i, d) in ctx.prog.ops.iter().enumerate() {
        let r = &ctx.recs[i];
        if ld(&r.inv) == 0 && ld(&r.start) == 0 { continue; }
        j.obj();
        j.kv_num("op", i).kv_num("obj", d.obj).kv_str("kind", d.kind.name()).kv_str("disp", &d.disp.name());
        j.kv_num("inv", ld(&r.inv)).kv_num("ret", ld(&r.ret)).kv_num("start", ld(&r.start)).kv_num("end", ld(&r.end)).kv_num("resolve", ld(&r.resolve));
        j.kv_num("runs", r.runs.load(ORD)).kv_num("suspensions", r.pendings.load(ORD)).kv_num("runner_class", r.runner.load(ORD));
        j.kv_bool("ran_on_calling_thread", r.run_tid.load(ORD) == r.call_tid.load(ORD)).kv_num("outcome", r.outcome.load(ORD));
        j.kv_num("first_polled_at", ld(&r.polled_at)).kv_num("waiter_polls_before_result", r.wait_polls.load(ORD)).kv_bool("cancelled", r.cancelled.load(ORD)).kv_num("future_dropped_at", ld(&r.dropped_at));
        if d.kind == Kind::Suspend { j.kv_num("resumer_used_at", ld(&ctx.resume_stamp[i])); }
        j.end_obj();
    }
    j.end_arr();
}

pub fn pipes_json(ctx: &RunCtx, j: &mut Json) {
    j.arr();
    for (p, st) in ctx.pipes.iter().enumerate() {
        let c = st.input.lock().unwrap();
        j.obj();
        j.kv_num("pipe", p).kv_num("created_at", st.created.load(ORD)).kv_num("items_pushed", st.pushed.load(ORD)).kv_num("input_ended_at", st.closed_stamp.load(ORD));
        j.kv_num("output_stream_dropped_at", st.stream_dropped.load(ORD)).kv_num("drop_class", st.drop_class.load(ORD)).kv_num("outputs_read", st.outputs.lock().unwrap().len());
        j.kv_bool("output_ended", st.out_ended.load(ORD)).kv_num("consumer_parks", st.consumer_parks.load(ORD)).kv_num("input_polls", c.polls).kv_num("input_polls_pending", c.pending_polls);
        j.kv_num("input_stream_drops", st.input_drops.load(ORD)).kv_num("closure_drops", st.closure_drops.load(ORD)).kv_num("items_left_in_input", c.q.len());
        j.end_obj();
    }
    j.end_arr();
}
