//! Structural quiescence detection from /proc: "all threads have gone quiet" is observed, not timed out.
//!
//! The process is quiescent iff, in two consecutive passes, every harness thread ("vh-*") and every
//! scheduler pool thread ("desync jobs thr") is inside futex(FUTEX_WAIT*) with a null timeout and its
//! context-switch counter did not change. Then nothing ran in between, nobody can issue a wake-up and
//! the state is permanent (the workload uses no timed waits; injected sleeps show up as nanosleep).

#[derive(Clone, Debug, PartialEq, Eq)]
pub struct ThreadSnap { pub tid: u32, pub comm: String, pub waiting: bool, pub slices: u64, pub syscall: String, pub state: char, pub observed: bool }

pub fn is_observed_thread(comm: &str) -> bool {
    comm.starts_with("vh-") || comm.starts_with("desync jobs thr")
}

#[cfg(not(miri))]
pub fn snapshot() -> Option<Vec<ThreadSnap>> {
    let mut out = vec![];
    let dir = std::fs::read_dir("/proc/self/task").ok()?;
    for ent in dir.flatten() {
        let tid: u32 = match ent.file_name().to_string_lossy().parse() { Ok(t) => t, Err(_) => continue };
        let base = format!("/proc/self/task/{}", tid);
        let comm = match std::fs::read_to_string(format!("{}/comm", base)) { Ok(c) => c.trim().to_string(), Err(_) => continue };
        if tid == std::process::id() || comm == "vh-dbg" { continue; }
        let observed = is_observed_thread(&comm);
        // state: the field after the parenthesised command name. A thread that was woken but has not run yet is already 'R'
        // although its syscall file still shows the futex call it is about to return from.
        let stat = std::fs::read_to_string(format!("{}/stat", base)).unwrap_or_default();
        let state = stat.rfind(')').and_then(|i| stat[i + 1..].trim_start().chars().next()).unwrap_or('?');
        let sc = std::fs::read_to_string(format!("{}/syscall", base)).unwrap_or_default();
        let st = std::fs::read_to_string(format!("{}/schedstat", base)).unwrap_or_default();
        if sc.is_empty() && st.is_empty() { continue; } // thread vanished while we looked
        let slices = st.split_whitespace().nth(2).and_then(|x| x.parse().ok()).unwrap_or(u64::MAX);
        let f: Vec<&str> = sc.split_whitespace().collect();
        let hex = |s: &str| u64::from_str_radix(s.trim_start_matches("0x"), 16).unwrap_or(u64::MAX);
        // futex(uaddr, op, val, timeout, ...): syscall 202 on x86_64; op low bits: 0 = WAIT, 9 = WAIT_BITSET; timeout NULL
        let in_futex = f.len() >= 5 && f[0] == "202" && { let op = hex(f[2]) & 0x7f; op == 0 || op == 9 } && hex(f[4]) == 0;
        // threads of the harness and of the pool must be asleep in an untimed futex wait; any other thread (a thread that has not
        // named itself yet, a sanitizer's background thread) only has to be not runnable
        let waiting = if observed { in_futex && state == 'S' } else { state != 'R' && state != '?' };
        out.push(ThreadSnap { tid, comm, waiting, slices, syscall: f.iter().take(5).cloned().collect::<Vec<_>>().join(" "), state, observed });
    }
    out.sort_by_key(|t| t.tid);
    Some(out)
}

#[cfg(miri)]
pub fn snapshot() -> Option<Vec<ThreadSnap>> { None }

/// True if both snapshots show the same set of threads, all waiting without timeout, none of which ran in between
pub fn quiescent(a: &[ThreadSnap], b: &[ThreadSnap]) -> bool {
    a.len() == b.len() && a.iter().zip(b.iter()).all(|(x, y)| x.tid == y.tid && x.waiting && y.waiting && (!x.observed || (x.slices == y.slices && x.slices != u64::MAX)))
}

/// Number of live pool threads as the kernel sees them
pub fn pool_threads(s: &[ThreadSnap]) -> usize { s.iter().filter(|t| t.comm.starts_with("desync jobs thr") && t.state != 'Z' && t.state != 'X').count() }
