//! The monitor side of one run: pool configuration, thread start, completion/quiescence detection, diagnosis, closing phase

use std::panic::{catch_unwind, AssertUnwindSafe};
use std::sync::atomic::{AtomicBool, AtomicU32, AtomicUsize, Ordering};
use std::sync::{Arc, Barrier, Mutex};
use std::thread;
use std::time::{Duration, Instant};

use desync::scheduler::scheduler;

use crate::exec::*;
use crate::model::*;
use crate::noise;
use crate::oracle;
use crate::quiesce;
use crate::rt::*;

#[derive(Clone, Debug, PartialEq)]
pub enum Outcome { Completed, Stuck, Inconclusive(String) }

pub struct RunResult {
    pub outcome:    Outcome,
    pub violations: Vec<Violation>,
    pub ctx:        Arc<RunCtx>,
    pub diag:       Vec<String>,
    pub stats:      oracle::RunStats,
    pub plan:       noise::Plan,
}

pub struct Opts {
    pub native:         bool,
    pub watchdog_s:     u64,
    pub noise_family:   String,
    pub verbose:        bool,
}

/// Highest number of live pool threads seen at any spawn event, and the maximum that was configured at that moment
pub static POOL_MAX_NOW: AtomicUsize = AtomicUsize::new(usize::MAX);
pub static POOL_OVER: AtomicUsize = AtomicUsize::new(0);
pub static POOL_PEAK: AtomicUsize = AtomicUsize::new(0);
pub static SPAWN_EVENTS: AtomicUsize = AtomicUsize::new(0);
pub static POOL_EXITS: AtomicUsize = AtomicUsize::new(0);
pub static EXITS_AT_RUN_START: AtomicUsize = AtomicUsize::new(0);
pub static SPAWNS_AT_RUN_START: AtomicUsize = AtomicUsize::new(0);
static MONITOR: std::sync::OnceLock<thread::Thread> = std::sync::OnceLock::new();
pub fn set_monitor_thread() { let _ = MONITOR.set(thread::current()); }
/// Pool threads that have reported their exit (the report is made by the dying thread itself, while it is still unwinding):
/// kernel thread id and start time, so that "that thread is gone" can be read off /proc exactly
pub static DYING: Mutex<Vec<(u32, u64)>> = Mutex::new(Vec::new());
/// Number of exits whose task could be identified (if /proc/thread-self is unreadable the monitor falls back to counting)
pub static DYING_NOTED: AtomicUsize = AtomicUsize::new(0);
pub static PANIC_NOTED: AtomicUsize = AtomicUsize::new(0);
#[cfg(not(miri))]
fn own_task() -> Option<(u32, u64)> {
    let link = std::fs::read_link("/proc/thread-self").ok()?;
    let tid: u32 = link.file_name()?.to_str()?.parse().ok()?;
    Some((tid, task_start(tid)?))
}
#[cfg(miri)]
fn own_task() -> Option<(u32, u64)> { None }
/// Start time of a task of this process (field 22 of its stat file); None if it does not exist or is already a zombie/dead
pub fn task_start(tid: u32) -> Option<u64> {
    let stat = std::fs::read_to_string(format!("/proc/self/task/{}/stat", tid)).ok()?;
    let rest = &stat[stat.rfind(')')? + 1..];
    let f: Vec<&str> = rest.split_whitespace().collect();
    if f.is_empty() || f[0] == "Z" || f[0] == "X" { return None; }
    f.get(19)?.parse().ok()
}
/// True once every pool thread that reported its exit has really left the process
pub fn dying_threads_gone() -> bool {
    let mut d = match DYING.lock() { Ok(d) => d, Err(_) => return true };
    d.retain(|(tid, start)| task_start(*tid) == Some(*start));
    d.is_empty()
}
/// A body that is about to panic on a pool thread kills that thread: note it (this also covers builds without the hooks)
pub fn note_dying_pool_thread() {
    if thread::current().name().map(|n| n.starts_with("desync jobs thr")).unwrap_or(false) {
        if let Some(t) = own_task() { if let Ok(mut d) = DYING.lock() { d.push(t); PANIC_NOTED.fetch_add(1, Ordering::SeqCst); } }
    }
}
pub fn on_exit_event() {
    if let Some(t) = own_task() { if let Ok(mut d) = DYING.lock() { d.push(t); DYING_NOTED.fetch_add(1, Ordering::SeqCst); } }
    POOL_EXITS.fetch_add(1, Ordering::SeqCst);
    if let Some(m) = MONITOR.get() { m.unpark(); }
    if let Ok(ms) = std::env::var("DH_SELFTEST_SLOW_EXIT_MS") { thread::sleep(Duration::from_millis(ms.parse().unwrap_or(0))); }
}

#[cfg(feature = "hooks")]
pub fn live_pool() -> usize { desync::verif::live_pool_threads() }
#[cfg(not(feature = "hooks"))]
pub fn live_pool() -> usize { 0 }

/// Called from the hook at every pool thread spawn (the counter has already been incremented)
pub fn on_spawn_event() {
    let live = live_pool();
    SPAWN_EVENTS.fetch_add(1, Ordering::Relaxed);
    POOL_PEAK.fetch_max(live, Ordering::Relaxed);
    let max = POOL_MAX_NOW.load(Ordering::Relaxed);
    if live > max { POOL_OVER.fetch_max(live, Ordering::Relaxed); }
}

// ---------------------------------------------------------------------------------------------
// Panic bookkeeping: expected panics are silenced, unexpected ones are recorded with their thread

pub static PANICS: Mutex<Vec<(String, String)>> = Mutex::new(Vec::new());
/// The last few panics of the process, across runs (diagnosis only)
pub static RECENT_PANICS: Mutex<Vec<String>> = Mutex::new(Vec::new());

static VERBOSE_PANICS: AtomicBool = AtomicBool::new(false);
pub fn install_panic_hook() {
    if std::env::var_os("DH_PANIC_VERBOSE").is_some() { VERBOSE_PANICS.store(true, Ordering::Relaxed); }
    std::panic::set_hook(Box::new(|info| {
        let msg = if let Some(s) = info.payload().downcast_ref::<&str>() { s.to_string() }
                  else if let Some(s) = info.payload().downcast_ref::<String>() { s.clone() } else { "?".to_string() };
        let name = thread::current().name().unwrap_or("?").to_string();
        let loc = info.location().map(|l| { let f = l.file(); let tail = match f.rfind("src/") { Some(i) => &f[i..], None => f }; format!("{}:{}", tail, l.line()) }).unwrap_or_default();
        if name == "main" { eprintln!("MONITOR THREAD PANICKED: {} @ {}", msg, loc); }
        if VERBOSE_PANICS.load(Ordering::Relaxed) { eprintln!("PANIC on '{}': {} @ {}", name, msg, loc); }
        if let Ok(mut p) = RECENT_PANICS.lock() { if p.len() >= 12 { p.remove(0); } p.push(format!("{}: {} @ {}", name, msg, loc)); }
        if let Ok(mut p) = PANICS.lock() { if p.len() < 256 { p.push((name, format!("{} @ {}", msg, loc))); } }
    }));
}

fn is_expected_panic(msg: &str, ctx: &RunCtx) -> bool {
    if msg.contains("vh-expected-panic") { return true; }
    // loud refusals of a panicked object are what C15 demands
    ctx.prog.panics && (msg.contains("on a panicked queue") || msg.contains("PoisonError") || msg.contains("Poisoned") || msg.contains("without result") || msg.contains("Finished sync request"))
}

fn panic_prop(msg: &str, profile_prop: &'static str) -> &'static str {
    if msg.contains("action twice") || msg.contains("more than once") { "C03" }
    else if msg.contains("already been returned") { "C07" }
    else { profile_prop }
}

pub fn profile_prop(profile: &str) -> &'static str {
    const ALL: [&str; 17] = ["C01", "C02", "C03", "C04", "C05", "C06", "C07", "C08", "C09", "C10", "C11", "C12", "C13", "C14", "C15", "C16", "C17"];
    for p in ALL { if profile.eq_ignore_ascii_case(p) { return p; } }
    "C14"
}

// ---------------------------------------------------------------------------------------------
// Waiting with quiescence detection

enum Wait { Done, Quiescent(Vec<quiesce::ThreadSnap>), TimedOut }

/// Waits until `done()` holds. Natively the wait is a short timed park followed by /proc sampling: two identical
/// all-waiting snapshots mean nothing can ever change again. Under Miri the wait is an untimed park: a hang becomes a
/// deadlock report of the interpreter.
fn wait_until(native: bool, watchdog: Duration, mut done: impl FnMut() -> bool) -> Wait {
    let t0 = Instant::now();
    let mut prev: Option<Vec<quiesce::ThreadSnap>> = None;
    let mut spins = 0u32;
    loop {
        if done() { return Wait::Done; }
        if !native {
            // Under Miri there is no /proc. Some conditions change without anybody unparking the monitor (a queue going idle), so
            // first give the other threads the processor for a while; if the condition still does not hold and nobody unparks us, the
            // untimed park turns a hang into a deadlock report of the interpreter (all other threads are blocked by then).
            spins += 1;
            if spins < 3000 { thread::yield_now(); } else {
                if spins == 3000 { eprintln!("DHSTATE monitor is about to park without a time limit: {}", current_state()); }
                thread::park();
            }
            continue;
        }
        spins += 1;
        if spins < 20 { thread::park_timeout(Duration::from_micros(100)); continue; }
        thread::park_timeout(Duration::from_micros(500));
        if done() { return Wait::Done; }
        if let Some(snap) = quiesce::snapshot() {
            if let Some(p) = &prev {
                if quiesce::quiescent(p, &snap) {
                    // one more look at the completion condition: it may have become true just before everything went quiet
                    if done() { return Wait::Done; }
                    return Wait::Quiescent(snap);
                }
            }
            prev = Some(snap);
        }
        if t0.elapsed() > watchdog { return Wait::TimedOut; }
    }
}

static CUR_CTX: Mutex<Option<Arc<RunCtx>>> = Mutex::new(None);

/// One line describing the run in progress (printed under Miri just before the monitor parks for good, so that a deadlock
/// report of the interpreter can be read)
fn current_state() -> String {
    let g = CUR_CTX.lock().unwrap();
    match &*g {
        None => "no run in progress".into(),
        Some(ctx) => {
            let mut s = format!("template {} pool {} threads_done {} incomplete [{}] scheduler [{:?}] live_pool {}", ctx.prog.template, ctx.prog.pool, ctx.threads_done.load(Ordering::SeqCst),
                incomplete_list(ctx, false), scheduler(), live_pool());
            s.push_str(&format!(" pool_mode {:?} spawn_events {} (at run start {}) exits {} (at run start {})", ctx.prog.pool_mode, SPAWN_EVENTS.load(Ordering::SeqCst), SPAWNS_AT_RUN_START.load(Ordering::SeqCst), POOL_EXITS.load(Ordering::SeqCst), EXITS_AT_RUN_START.load(Ordering::SeqCst)));
            if let Ok(p) = PANICS.try_lock() { s.push_str(&format!(" panics so far in this run {:?}", p.iter().map(|(n, m)| format!("{}: {}", n, m)).collect::<Vec<_>>())); }
            if let Ok(p) = RECENT_PANICS.try_lock() { s.push_str(&format!(" last panics of the process {:?}", *p)); }
            #[cfg(feature = "hooks")]
            for i in 0..ctx.prog.n_obj { if let Some(d) = ctx.obj(i) { s.push_str(&format!(" obj{}=[{:?}]", i, d.verif_queue())); } }
            for b in ctx.blocking.iter() { let v = b.load(ORD); if v != 0 { s.push_str(&format!(" blocked[{} in {}]", subject_name(ctx, (v >> 16) as usize - 1), phase_name((v >> 8) & 0xff))); } }
            s
        }
    }
}

/// Runs `f` on a helper thread named vh-z while the caller monitors for quiescence
fn on_helper<T: Send + 'static>(native: bool, watchdog: Duration, f: impl FnOnce() -> T + Send + 'static) -> Result<T, Wait> {
    let done = Arc::new(AtomicBool::new(false));
    let d2 = Arc::clone(&done);
    let main = thread::current();
    let slot: Arc<Mutex<Option<std::thread::Result<T>>>> = Arc::new(Mutex::new(None));
    let s2 = Arc::clone(&slot);
    spawn_task("vh-z".into(), Box::new(move || {
        let r = catch_unwind(AssertUnwindSafe(f));
        *s2.lock().unwrap() = Some(r);
        d2.store(true, Ordering::SeqCst);
        main.unpark();
    }));
    match wait_until(native, watchdog, || done.load(Ordering::SeqCst)) {
        Wait::Done => match slot.lock().unwrap().take() { Some(Ok(v)) => Ok(v), _ => Err(Wait::TimedOut) },
        other => Err(other),
    }
}

// ---------------------------------------------------------------------------------------------

fn configure_pool(pool: usize, mode: PoolMode) {
    let s = scheduler();
    #[cfg(feature = "hooks")]
    {
        match mode {
            PoolMode::Fresh => { s.verif_set_max_threads(0); s.despawn_threads_if_overloaded(); s.verif_set_max_threads(pool); }
            PoolMode::Warm  => { s.verif_set_max_threads(pool); s.despawn_threads_if_overloaded(); }
            PoolMode::Eager => { s.verif_set_max_threads(pool); s.despawn_threads_if_overloaded(); s.set_max_threads(pool); }
        }
    }
    #[cfg(not(feature = "hooks"))]
    {
        let _ = mode;
        // no lazy setter without the hooks: lower first (so that the eager loop cannot spawn), despawn, then raise
        s.set_max_threads(0);
        s.despawn_threads_if_overloaded();
        s.set_max_threads(pool);
    }
}

fn expected_complete(ctx: &RunCtx, only_free: bool) -> bool {
    for (i, def) in ctx.prog.ops.iter().enumerate() {
        let rec = &ctx.recs[i];
        if only_free && ctx.prog.held_objs.contains(&def.obj) { continue; }
        if def.kind == Kind::PipeItem && ctx.prog.panics && def.body.contains(&Step::Panic) && rec.outcome.load(ORD) != 5 && !only_free {
            // (panic scenarios) the item whose processing is going to panic: the phase is not over before it has
            return false;
        }
        if def.kind == Kind::PipeItem && !rec.accepted.load(ORD) {
            // an item that was pushed into the input of a pipe whose target stays alive and whose output is still wanted has to be
            // taken out of the input and processed without anything else having to happen
            let p = def.pipe.unwrap_or(0);
            let wanted = rec.ret.load(ORD) != 0 && ctx.prog.mortal != Some(def.obj) && ctx.pipes[p].created.load(ORD) != 0 && ctx.pipes[p].stream_dropped.load(ORD) == 0
                && !(ctx.prog.pipes[p].through && pipe_throttled(ctx, p));
            if wanted && !only_free { return false; }
            continue;
        }
        if !rec.accepted.load(ORD) { continue; }
        if ctx.prog.panics && oracle::object_panicked(ctx, def.obj) { continue; }   // the queue of a panicked object is dead
        let must_end = match def.kind {
            Kind::Desync | Kind::FutDesync | Kind::After | Kind::PipeItem => true,
            Kind::Sync | Kind::TrySync => false,
            Kind::FutSync => rec.start.load(ORD) != 0,
            Kind::Suspend => false,
        };
        if must_end && rec.end.load(ORD) == 0 {
            // an `after` whose gate never fires cannot finish; generators always fire every gate
            return false;
        }
    }
    true
}

pub fn helper_threads(ctx: &RunCtx) -> usize { 1 + !ctx.prog.pusher.is_empty() as usize }
/// The producer of pipe p is legitimately held back: as many outputs are buffered (processed but not read) as the depth allows
pub fn pipe_throttled(ctx: &RunCtx, p: usize) -> bool {
    let pd = &ctx.prog.pipes[p];
    let processed = pd.items.iter().filter(|it| ctx.recs[**it].end.load(ORD) != 0).count();
    let read = ctx.pipes[p].outputs.lock().unwrap().len();
    let depth = ctx.pipes[p].cur_depth.load(ORD) as usize;   // the depth the consumer has set last
    let _ = pd.depth;
    processed.saturating_sub(read) >= depth.max(1)
}

fn threads_finished(ctx: &RunCtx, started: usize) -> bool { ctx.threads_done.load(Ordering::SeqCst) >= started }

pub fn run_program(prog: Program, opts: &Opts, plan: noise::Plan) -> RunResult {
    let native = opts.native;
    let watchdog = Duration::from_secs(opts.watchdog_s);
    let pprop = profile_prop(prog.profile);
    if let Ok(mut p) = PANICS.lock() { p.clear(); }

    // 1. pool configuration at quiescence, noise off, on a helper so that a call that never returns is observed
    noise::set_plan(noise::Plan::Off, prog.run_seed);
    POOL_MAX_NOW.store(usize::MAX, Ordering::SeqCst);
    // the eager spawn loop of set_max_threads only ends once every pool thread is seen busy at the same time: under the
    // interpreter's frequent pre-emption that can take very long, so the eager mode is a native-only configuration
    let (pool, mode) = (prog.pool, if !native && prog.pool_mode == PoolMode::Eager { PoolMode::Warm } else { prog.pool_mode });
    let cfg = on_helper(native, watchdog, move || configure_pool(pool, mode));
    let handles = build(prog, native);
    let ctx = Arc::clone(&handles.ctx);
    let mut objects = handles.objects;
    if !native { *CUR_CTX.lock().unwrap() = Some(Arc::clone(&ctx)); }
    let mut diag = vec![];
    if let Err(w) = cfg {
        let (outcome, mut v) = match w {
            Wait::Quiescent(_) => (Outcome::Stuck, vec![Violation { prop: "C17", kind: "pool_reconfiguration_never_returned".into(), sig: "despawn_hang".into(),
                                    detail: "set_max_threads/despawn_threads_if_overloaded did not return; all threads quiet".into() }]),
            _ => (Outcome::Inconclusive("watchdog during pool configuration".into()), vec![]),
        };
        v.extend(ctx.sink.viol.lock().unwrap().drain(..));
        return RunResult { outcome, violations: v, stats: oracle::RunStats::default(), ctx, diag, plan };
    }
    POOL_OVER.store(0, Ordering::SeqCst);
    if DYING.lock().map(|d| d.len() > 32).unwrap_or(false) { let _ = dying_threads_gone(); }   // forget threads that are long gone
    let exits0 = POOL_EXITS.load(Ordering::SeqCst);
    EXITS_AT_RUN_START.store(exits0, Ordering::SeqCst); SPAWNS_AT_RUN_START.store(SPAWN_EVENTS.load(Ordering::SeqCst), Ordering::SeqCst);
    let noted0 = DYING_NOTED.load(Ordering::SeqCst);
    let pnoted0 = PANIC_NOTED.load(Ordering::SeqCst);
    POOL_PEAK.store(live_pool(), Ordering::SeqCst);
    POOL_MAX_NOW.store(pool, Ordering::SeqCst);
    if cfg!(feature = "hooks") && live_pool() > pool {
        ctx.report("C17", "pool_above_maximum_after_despawn", "despawn_left_threads".into(), format!("{} live pool threads after lowering the maximum to {} and despawning", live_pool(), pool));
    }

    // 2. owners of the mortal object, pre-fired gates
    let mut mortal_clones: Vec<Option<Arc<Obj>>> = vec![None; ctx.prog.threads.len()];
    if let Some(m) = ctx.prog.mortal {
        let owner = objects[m].take().expect("mortal object");
        for (t, acts) in ctx.prog.threads.iter().enumerate() {
            let uses = acts.iter().any(|a| match a {
                TAct::Op(o) | TAct::Join(o) | TAct::DropHeld(o) => ctx.prog.ops[*o].obj == m,
                TAct::ReleaseMortal | TAct::PanicRelease => true,
                TAct::PipeCreate(p) | TAct::Consume(p, _) | TAct::DropStream(p) | TAct::StashStream(p) | TAct::SetDepth(p, _) => ctx.prog.pipes[*p].obj == m,
                _ => false });
            if uses { mortal_clones[t] = Some(Arc::clone(&owner)); }
        }
        if ctx.prog.ops.iter().any(|o| o.body.contains(&Step::DropMortal)) { *ctx.mortal_job_owner.lock().unwrap() = Some(Arc::clone(&owner)); }
        std::mem::drop(owner);
    }
    {
        let mut rng = Rng::new(ctx.prog.run_seed ^ 0x9a7e);
        for g in ctx.prog.prefired.clone() { ctx.gates[g].fire(&mut rng); }
        // items that are in the input before the pipe exists
        for (p, pd) in ctx.prog.pipes.iter().enumerate() {
            for _ in 0..pd.preloaded { crate::pipes::push_item(&ctx, p); }
            if pd.preclosed { crate::pipes::close_input(&ctx, p); }
        }
    }

    // 3. start the threads behind a barrier; noise on
    noise::set_plan(plan, ctx.prog.run_seed);
    let nthreads = ctx.prog.threads.len();
    let barrier = Arc::new(Barrier::new(nthreads + helper_threads(&ctx)));
    let mut started = nthreads + helper_threads(&ctx);
    for t in 0..nthreads {
        let m = mortal_clones[t].take();
        spawn_caller(&ctx, t, ctx.prog.threads[t].clone(), m, Some(Arc::clone(&barrier)));
    }
    {
        let c = Arc::clone(&ctx); let b = Arc::clone(&barrier);
        spawn_task("vh-f".into(), Box::new(move || {
            let _ = c.firer.set(thread::current());
            c.register_thread();
            b.wait();
            let r = catch_unwind(AssertUnwindSafe(|| run_firer(&c, false)));
            if let Err(e) = r { thread_panicked(&c, "vh-f", e); }
            c.threads_done.fetch_add(1, Ordering::SeqCst);
            c.main.unpark();
        }));
    }
    if !ctx.prog.pusher.is_empty() {
        let c = Arc::clone(&ctx); let b = Arc::clone(&barrier);
        spawn_task("vh-p".into(), Box::new(move || {
            let _ = c.pusher.set(thread::current());
            c.register_thread();
            b.wait();
            let r = catch_unwind(AssertUnwindSafe(|| run_firer(&c, true)));
            if let Err(e) = r { thread_panicked(&c, "vh-p", e); }
            c.threads_done.fetch_add(1, Ordering::SeqCst);
            c.main.unpark();
        }));
    }

    // 4. wait for completion; with holds (C10) first for everything that does not depend on a hold
    let mut outcome = Outcome::Completed;
    let mut cur_max = pool;
    let mut stuck_snap = None;
    if ctx.prog.hold_phase {
        let phase0_holds: Vec<usize> = phase0_holds(&ctx);
        let want_inside: u32 = phase0_holds.len() as u32;
        let w = wait_until(native, watchdog, || {
            phase0_holds.iter().map(|h| ctx.holds[*h].inside.load(Ordering::SeqCst).min(1)).sum::<u32>() >= want_inside && expected_complete(&ctx, true) && free_callers_done(&ctx)
        });
        match w {
            Wait::Done => {}
            Wait::Quiescent(s) => {
                outcome = Outcome::Stuck;
                let inside: u32 = phase0_holds.iter().map(|h| ctx.holds[*h].inside.load(Ordering::SeqCst).min(1)).sum();
                diag.push(format!("quiescent while {} of {} holds are occupied and closed", inside, want_inside));
                ctx.sink.report("C10", "independent_object_made_no_progress_while_others_blocked", format!("c10_stall:pool{}:held{}", ctx.prog.pool, ctx.prog.held_objs.len()),
                    format!("all threads quiet with {} bodies blocked (pool maximum {}), yet operations on other objects are incomplete: {}", inside, ctx.prog.pool, incomplete_list(&ctx, true)));
                // who is blocked in what, while the holds are still closed (opening them may let a free pool thread rescue the situation):
                // a drop, sync or await that cannot finish although nothing it waits for is blocked belongs to that call's own property too
                diagnose(&ctx, &objects, &s, &mut diag, pprop);
                stuck_snap = Some(s);
            }
            Wait::TimedOut => outcome = Outcome::Inconclusive("watchdog in hold phase".into()),
        }
        if ctx.prog.hold_groups.is_empty() {
            for h in &ctx.holds { h.open(); }
        } else {
            for (group, then) in ctx.prog.hold_groups.clone() {
                for h in group { ctx.holds[h].open(); }
                if let (Some(op), true) = (then, outcome == Outcome::Completed) {
                    // proceed when that operation is over, or when nothing moves any more (both are fine)
                    let _ = wait_until(native, watchdog, || { let r = &ctx.recs[op]; r.ret.load(ORD) != 0 || r.outcome.load(ORD) != 0 });
                }
            }
            for h in &ctx.holds { h.open(); }
        }
    }
    if let (Some(h), true) = (ctx.prog.checkpoint_hold, outcome == Outcome::Completed) {
        // mid-run checkpoint: the consumer has stopped reading; wait until nothing moves any more, then look at the pipes
        if native {
            match wait_until(native, watchdog, || threads_finished(&ctx, started)) {
                Wait::Quiescent(_) | Wait::Done => {
                    for (p, pd) in ctx.prog.pipes.iter().enumerate() {
                        if !pd.through || ctx.pipes[p].created.load(ORD) == 0 || ctx.prog.mortal == Some(pd.obj) { continue; }
                        let waiting = pd.items.iter().filter(|it| ctx.recs[**it].ret.load(ORD) != 0 && ctx.recs[**it].start.load(ORD) == 0).count();
                        if waiting > 0 && !pipe_throttled(&ctx, p) && ctx.holds[h].inside.load(Ordering::SeqCst) > 0 {
                            let processed = pd.items.iter().filter(|it| ctx.recs[**it].end.load(ORD) != 0).count();
                            let read = ctx.pipes[p].outputs.lock().unwrap().len();
                            ctx.sink.report("C12", "producer_not_resumed_after_consumer_read", format!("backpressure_stuck:depth{}", pd.depth),
                                format!("pipe {}: the consumer has read {} outputs and stopped; {} items are processed, so only {} outputs are buffered (depth {}), yet {} items wait in the input and everything is quiet", p, read, processed, processed - read.min(processed), pd.depth, waiting));
                        }
                    }
                }
                Wait::TimedOut => outcome = Outcome::Inconclusive("watchdog at the pipe checkpoint".into()),
            }
        }
        ctx.holds[h].open();
    }
    if outcome == Outcome::Completed {
        match wait_until(native, watchdog, || threads_finished(&ctx, started) && expected_complete_or_pool0(&ctx)) {
            Wait::Done => {}
            Wait::Quiescent(s) => { outcome = Outcome::Stuck; stuck_snap = Some(s); }
            Wait::TimedOut => outcome = Outcome::Inconclusive("watchdog waiting for completion".into()),
        }
    }

    // later phases of multi-phase scenarios (C15, C17)
    std::sync::atomic::fence(Ordering::Acquire);   // pairs with the release fence before every end stamp (see Span::drop)
    let phases = ctx.prog.phases.clone();
    let exits_at_start = exits0;
    for ph in phases.iter() {
        if outcome != Outcome::Completed { break; }
        // the panic scenarios only make sense once the injected panic has really happened (a try_sync that found the object busy
        // does not run its closure): otherwise the run ends here and counts as trivial
        // (decided from the operation records this thread has already seen while waiting for phase 0: in the interpreter's build the
        // harness's own atomics are Relaxed, and a separate counter written by the panicking thread may still read as zero here)
        if ctx.prog.profile == "C15" && ctx.prog.panics && !(0..ctx.prog.ops.len()).any(|i| ctx.recs[i].outcome.load(ORD) == 5) {
            // only a try_sync closure can legitimately not have run (Busy); anything else means the harness lost track
            if ctx.prog.ops.iter().any(|o| o.kind == Kind::TrySync && o.body.contains(&Step::Panic)) { break; }
            outcome = Outcome::Inconclusive("phase 0 of a panic scenario is complete but no operation is recorded as panicked".into()); break;
        }
        if ph.wait_pool_exit {
            // "once the panic has finished unwinding": every pool thread that ran a panicking body has exited
            let need = ctx.prog.ops.iter().enumerate().filter(|(i, _)| ctx.recs[*i].outcome.load(ORD) == 5 && ctx.recs[*i].runner.load(ORD) == 1).count();
            if cfg!(feature = "hooks") {
                match wait_until(native, watchdog, || POOL_EXITS.load(Ordering::SeqCst) >= exits_at_start + need) {
                    Wait::Done => {}
                    Wait::Quiescent(s) => { outcome = Outcome::Stuck; stuck_snap = Some(s);
                        ctx.sink.report("C15", "panicked_pool_thread_never_exited", "pool_thread_survived_panic".into(), format!("{} panicking bodies ran on pool threads but only {} pool threads have exited", need, POOL_EXITS.load(Ordering::SeqCst) - exits_at_start)); }
                    Wait::TimedOut => outcome = Outcome::Inconclusive("watchdog waiting for the panicked pool thread to exit".into()),
                }
            }
            if outcome != Outcome::Completed { break; }
            // the exit hook runs while the thread is still unwinding; the scheduler only sees it as finished a moment later.
            // "Finished" is read off /proc for exactly the threads that reported their exit (kernel thread id and start time recorded
            // by the dying thread itself). Comparing the number of named pool threads with the hook's counter is not enough: a pool
            // thread that was spawned but has not named itself yet makes the count come out right while the dying thread still exists.
            if native {
                let noted_enough = DYING_NOTED.load(Ordering::SeqCst) >= noted0 + need || PANIC_NOTED.load(Ordering::SeqCst) >= pnoted0 + need;
                match wait_until(native, watchdog, || dying_threads_gone() && (noted_enough || quiesce::snapshot().map(|s| quiesce::pool_threads(&s) <= live_pool()).unwrap_or(true))) {
                    Wait::Done => {}
                    _ => { outcome = Outcome::Inconclusive("a pool thread that reported its exit is still listed by the kernel".into()); break; }
                }
            } else {
                // No /proc under Miri, and the interpreter needs many scheduling slices to run the dying thread to its very end.
                // Establish "the thread is finished and has been reaped" explicitly: give it time, then make scheduling calls on a
                // private object (each followed by a sync that carries the work itself) until the scheduler lists no dead thread.
                let r = on_helper(native, watchdog, move || {
                    let scratch = desync::Desync::new(0u32);
                    for _ in 0..400 {
                        for _ in 0..50 { thread::yield_now(); }
                        scratch.desync(|v| *v += 1);
                        scratch.sync(|_| {});
                        let listed = format!("{:?}", scheduler()).chars().take_while(|c| *c == 'B' || *c == 'I').count();
                        if listed <= live_pool() { break; }
                    }
                });
                if r.is_err() { outcome = Outcome::Inconclusive("settling after the panic did not return".into()); break; }
            }
        }
        for h in &ph.open_first { ctx.holds[*h].open(); }
        if let Some(newmax) = ph.reconfig {
            noise::set_plan(noise::Plan::Off, ctx.prog.run_seed);
            // the maximum only changes between phases, at quiescence; raising is lazy, lowering is followed by despawn
            let eager = ph.eager;
            // while the maximum is being raised the new value already applies
            POOL_MAX_NOW.store(newmax.max(cur_max), Ordering::SeqCst);
            let r = on_helper(native, watchdog, move || { if eager { scheduler().set_max_threads(newmax); } else { configure_pool(newmax, PoolMode::Warm) } });
            match r {
                Ok(()) => {}
                Err(Wait::Quiescent(s)) => { outcome = Outcome::Stuck; stuck_snap = Some(s);
                    ctx.sink.report("C17", "pool_reconfiguration_never_returned", "despawn_hang".into(), format!("lowering the maximum to {} and despawning did not return; all threads quiet", newmax)); break; }
                Err(_) => { outcome = Outcome::Inconclusive("watchdog during pool reconfiguration".into()); break; }
            }
            POOL_MAX_NOW.store(newmax, Ordering::SeqCst);
            cur_max = newmax;
            if cfg!(feature = "hooks") && live_pool() > newmax {
                ctx.report("C17", "pool_above_maximum_after_despawn", format!("despawn_left_threads:max{}", newmax), format!("{} live pool threads after lowering the maximum to {} and despawn_threads_if_overloaded returned", live_pool(), newmax));
            }
            noise::set_plan(plan, ctx.prog.run_seed ^ 0x51);
        }
        for (t, acts) in ph.threads.iter().enumerate() {
            started += 1;
            spawn_caller(&ctx, 10 + t, acts.clone(), None, None);
        }
        if !ph.occupy.is_empty() {
            let w = wait_until(native, watchdog, || ph.occupy.iter().all(|h| ctx.holds[*h].inside.load(Ordering::SeqCst) >= 1) && (!ph.free_must_complete || expected_complete(&ctx, true)));
            match w {
                Wait::Done => {}
                Wait::Quiescent(s) => {
                    outcome = Outcome::Stuck; stuck_snap = Some(s);
                    let inside = ph.occupy.iter().filter(|h| ctx.holds[**h].inside.load(Ordering::SeqCst) >= 1).count();
                    let prop = if ctx.prog.profile == "C15" { "C15" } else { "C10" };
                    if inside < ph.occupy.len() || !ph.free_must_complete {
                        ctx.sink.report(prop, "pool_cannot_hold_its_maximum_of_blocked_bodies", format!("capacity:{}of{}:max{}", inside, ph.occupy.len(), cur_max),
                            format!("phase '{}': {} bodies were scheduled on {} different objects with pool maximum {}, but only {} ever started; all threads quiet", ph.name, ph.occupy.len(), ph.occupy.len(), cur_max, inside));
                    } else {
                        ctx.sink.report("C10", "independent_object_made_no_progress_while_others_blocked", format!("c10_stall:pool{}:held{}:{}", cur_max, ph.occupy.len(), ph.name),
                            format!("phase '{}': all threads quiet with {} bodies blocked (pool maximum {}), yet operations on other objects are incomplete: {}", ph.name, inside, cur_max, incomplete_list(&ctx, true)));
                    }
                }
                Wait::TimedOut => outcome = Outcome::Inconclusive("watchdog in capacity probe".into()),
            }
            if let (Some(d), true) = (ph.dying_op, outcome == Outcome::Completed) {
                // the panicking job has run and its thread has left the process; nothing has called the scheduler since
                let d2 = ph.dying_op2;
                match wait_until(native, watchdog, || ctx.recs[d].outcome.load(ORD) == 5 && d2.map(|d2| ctx.recs[d2].outcome.load(ORD) == 5).unwrap_or(true) && dying_threads_gone()) {
                    Wait::Done => {}
                    Wait::Quiescent(s) => { outcome = Outcome::Stuck; stuck_snap = Some(s);
                        ctx.sink.report("C10", "independent_object_made_no_progress_while_others_blocked", format!("c10_stall:pool{}:held{}:{}", cur_max, ph.occupy.len(), ph.name),
                            format!("phase '{}': the job on the free object never ran although the pool maximum {} exceeds the {} blocked bodies", ph.name, cur_max, ph.occupy.len())); }
                    Wait::TimedOut => outcome = Outcome::Inconclusive("watchdog waiting for the panicking job".into()),
                }
            }
            if !ph.release_first.is_empty() && outcome == Outcome::Completed {
                if let Some(lower) = ph.lower_while_busy {
                    // C10 with a reconfiguration in progress: the temporaries go away (their threads, the first ones of the list, become
                    // idle), the maximum is lowered to a value that still exceeds the number of blocked bodies, and the despawn - which has
                    // to wait for the retiring threads that are inside blocked bodies - is started; operations on a free object must run
                    for h in &ph.release_first { ctx.holds[*h].open(); }
                    let temps: Vec<OpId> = (0..ctx.prog.ops.len()).filter(|i| ctx.prog.ops[*i].body.iter().any(|s| matches!(s, Step::Hold(h) if ph.release_first.contains(h)))).collect();
                    let _ = wait_until(native, watchdog, || temps.iter().all(|o| ctx.recs[*o].end.load(ORD) != 0));
                    let done = Arc::new(AtomicBool::new(false));
                    let d2 = Arc::clone(&done);
                    let main = thread::current();
                    POOL_MAX_NOW.store(cur_max, Ordering::SeqCst);
                    spawn_task("vh-z".into(), Box::new(move || {
                        let _ = catch_unwind(AssertUnwindSafe(|| configure_pool(lower, PoolMode::Warm)));
                        d2.store(true, Ordering::SeqCst);
                        main.unpark();
                    }));
                    if native { thread::sleep(Duration::from_micros(500)); } else { for _ in 0..300 { thread::yield_now(); } }
                    started += 1;
                    spawn_caller(&ctx, 20, ph.after_deaths.clone(), None, None);
                    let ids: Vec<OpId> = ph.after_deaths.iter().filter_map(|a| if let TAct::Op(o) = a { Some(*o) } else { None }).collect();
                    let blocked = ph.occupy.len() - ph.release_first.len();
                    match wait_until(native, watchdog, || ids.iter().all(|o| ctx.recs[*o].end.load(ORD) != 0)) {
                        Wait::Done => {}
                        Wait::Quiescent(s) => { outcome = Outcome::Stuck; stuck_snap = Some(s);
                            ctx.sink.report("C10", "independent_object_made_no_progress_while_others_blocked", format!("c10_stall:pool{}:held{}:{}", lower, blocked, ph.name),
                                format!("phase '{}': {} bodies are blocked, the maximum was lowered to {} and despawn_threads_if_overloaded is waiting for the retiring threads; operations on a free object did not run although idle pool threads exist: {}", ph.name, blocked, lower, incomplete_list(&ctx, true))); }   // (the scheduler's Debug output takes the thread-list lock: not while a despawn may be holding it)
                        Wait::TimedOut => outcome = Outcome::Inconclusive("watchdog while probing during a despawn".into()),
                    }
                    for h in &ph.occupy { ctx.holds[*h].open(); }
                    if outcome == Outcome::Completed {
                        match wait_until(native, watchdog, || done.load(Ordering::SeqCst)) {
                            Wait::Done => { POOL_MAX_NOW.store(lower, Ordering::SeqCst); cur_max = lower; }
                            Wait::Quiescent(s) => { outcome = Outcome::Stuck; stuck_snap = Some(s);
                                ctx.sink.report("C17", "pool_reconfiguration_never_returned", "despawn_hang_while_busy".into(), format!("lowering the maximum to {} and despawn_threads_if_overloaded did not return; all threads quiet", lower)); }
                            Wait::TimedOut => outcome = Outcome::Inconclusive("watchdog during despawn while busy".into()),
                        }
                    }
                }
            } else
            if !ph.after_deaths.is_empty() && outcome == Outcome::Completed {
                // more work arrives while the surviving pool threads are still inside their blocked bodies: the dead threads have to be
                // replaced (up to the maximum) for it to run, and the scheduling calls themselves have to return
                started += 1;
                spawn_caller(&ctx, 20, ph.after_deaths.clone(), None, None);
                let ids: Vec<OpId> = ph.after_deaths.iter().filter_map(|a| if let TAct::Op(o) = a { Some(*o) } else { None }).collect();
                match wait_until(native, watchdog, || ids.iter().all(|o| ctx.recs[*o].end.load(ORD) != 0)) {
                    Wait::Done => {}
                    Wait::Quiescent(s) => { outcome = Outcome::Stuck; stuck_snap = Some(s);
                        let done = ids.iter().filter(|o| ctx.recs[**o].end.load(ORD) != 0).count();
                        let returned = ids.iter().filter(|o| ctx.recs[**o].ret.load(ORD) != 0).count();
                        ctx.sink.report("C17", "dead_pool_threads_not_replaced", format!("dead_not_replaced:max{}:{}", cur_max, ph.name),
                            format!("phase '{}': pool threads died with {} bodies still blocked (maximum {}); of {} operations scheduled afterwards on a free object {} calls returned and {} ran; all threads quiet; scheduler {:?}, {} live pool threads", ph.name, ph.occupy.len(), cur_max, ids.len(), returned, done, scheduler(), live_pool())); }
                    Wait::TimedOut => outcome = Outcome::Inconclusive("watchdog waiting for the work scheduled after the deaths".into()),
                }
            }
            if let (Some(lower), true, true) = (ph.lower_while_busy, outcome == Outcome::Completed, ph.release_first.is_empty()) {
                // lower the maximum and despawn while the pool threads are inside blocked bodies; then let the bodies go on
                let done = Arc::new(AtomicBool::new(false));
                let d2 = Arc::clone(&done);
                let main = thread::current();
                // The released bodies go on to make scheduling calls (which find no dormant thread and try to spawn) while the maximum is
                // lowered and the pool despawned: dense small delays at the lock points of both sides, unless this run is noise-free
                if plan != noise::Plan::Off { noise::set_plan(noise::Plan::Uniform { ppm: 300_000, max_us: 120 }, ctx.prog.run_seed ^ 0x53); }
                // three orders: bodies released first, both at once, or the despawn given a head start so that it is in its joins
                let order = (ctx.prog.run_seed >> 17) % 3;
                if order == 0 { for h in &ph.occupy { ctx.holds[*h].open(); } }
                spawn_task("vh-z".into(), Box::new(move || {
                    let _ = catch_unwind(AssertUnwindSafe(|| configure_pool(lower, PoolMode::Warm)));
                    d2.store(true, Ordering::SeqCst);
                    main.unpark();
                }));
                if order == 2 { if native { thread::sleep(Duration::from_micros(300)); } else { for _ in 0..200 { thread::yield_now(); } } }
                for h in &ph.occupy { ctx.holds[*h].open(); }
                match wait_until(native, watchdog, || done.load(Ordering::SeqCst)) {
                    Wait::Done => {
                        POOL_MAX_NOW.store(lower, Ordering::SeqCst);
                        cur_max = lower;
                        if cfg!(feature = "hooks") && live_pool() > lower {
                            ctx.report("C17", "pool_above_maximum_after_despawn", format!("despawn_left_threads:max{}", lower), format!("{} live pool threads after lowering the maximum to {} and despawn_threads_if_overloaded returned", live_pool(), lower));
                        }
                    }
                    Wait::Quiescent(s) => { outcome = Outcome::Stuck; stuck_snap = Some(s);
                        ctx.sink.report("C17", "pool_reconfiguration_never_returned", "despawn_hang_while_busy".into(), format!("lowering the maximum to {} and despawn_threads_if_overloaded, called while pool threads were busy, did not return; all threads quiet", lower)); }
                    Wait::TimedOut => outcome = Outcome::Inconclusive("watchdog during despawn while busy".into()),
                }
                noise::set_plan(plan, ctx.prog.run_seed ^ 0x52);
            }
            for h in &ph.occupy { ctx.holds[*h].open(); }
        }
        if outcome == Outcome::Completed {
            match wait_until(native, watchdog, || threads_finished(&ctx, started) && (cur_max == 0 || expected_complete(&ctx, false))) {
                Wait::Done => {}
                Wait::Quiescent(s) => { outcome = Outcome::Stuck; stuck_snap = Some(s); }
                Wait::TimedOut => outcome = Outcome::Inconclusive("watchdog waiting for a later phase".into()),
            }
        }
    }

    // pool 0: nothing drains detached work unless a caller does; sweep with sync until everything accepted has run
    if outcome == Outcome::Completed && cur_max == 0 {
        for round in 0..4 {
            if round > 0 && expected_complete(&ctx, false) { break; }
            let c = Arc::clone(&ctx);
            // (an object whose job panicked refuses every call: it is not swept)
            let objs: Vec<Arc<Obj>> = objects.iter().enumerate().filter(|(i, _)| !(ctx.prog.panics && oracle::object_panicked(&ctx, *i))).filter_map(|(_, o)| o.clone()).collect();
            let r = on_helper(native, watchdog, move || {
                for d in objs.iter() { let _b = c.blocked(NO_OP, PH_SWEEP); d.sync(|_| {}); }
            });
            match r { Ok(()) => {}, Err(Wait::Quiescent(s)) => { outcome = Outcome::Stuck; stuck_snap = Some(s); break; }
                      Err(_) => { outcome = Outcome::Inconclusive("watchdog in pool-0 sweep".into()); break; } }
        }
        if outcome == Outcome::Completed && !expected_complete(&ctx, false) {
            ctx.sink.report("C04", "work_not_drained_by_sync_with_no_pool_threads", "pool0_sweep_incomplete".into(), format!("after sync on every object: {}", incomplete_list(&ctx, false)));
        }
    }

    // 5. let the scheduler settle: every queue idle and empty, no busy flag left (observed, not timed)
    let mut settle_note = String::new();
    if outcome == Outcome::Completed {
        let live: Vec<(usize, Arc<Obj>)> = objects.iter().enumerate().filter_map(|(i, o)| o.clone().map(|o| (i, o))).collect();
        let c = Arc::clone(&ctx);
        let mut last = String::new();
        let w = wait_until(native, watchdog, || { let (ok, s) = settled(&c, &live, cur_max); last = s; ok });
        match w {
            Wait::Done => {}
            Wait::Quiescent(s) => {
                outcome = Outcome::Stuck; stuck_snap = Some(s);
                settle_note = last.clone();
                let had_busy = ctx.prog.ops.iter().enumerate().any(|(i, d)| d.kind == Kind::TrySync && ctx.recs[i].outcome.load(ORD) == 2);
                let prop = if had_busy && last.contains("State: Running") { "C09" } else { "C03" };
                ctx.sink.report(prop, "not_idle_at_quiescence", format!("not_idle:{}", state_words(&last)), format!("every operation has completed and all threads are quiet, but: {}", last));
                // Every caller thread has finished, so every owner of the mortal object that the program had is gone; all its operations
                // have completed and everything is quiet: if the value is still alive, something else is keeping it (a pipe_in may only
                // hold a weak reference) or its destruction is stuck
                if let Some(m) = ctx.prog.mortal {
                    let dropped_stream = ctx.prog.pipes.iter().enumerate().any(|(p, pd)| pd.obj == m && pd.through && ctx.pipes[p].stream_dropped.load(ORD) == 0);
                    if ctx.objs[m].drops.load(ORD) == 0 && !dropped_stream && !(ctx.prog.panics && oracle::object_panicked(&ctx, m)) && ctx.mortal_job_owner.lock().unwrap().is_none() {
                        let pipe_in = ctx.prog.pipes.iter().enumerate().any(|(p, pd)| pd.obj == m && !pd.through && ctx.pipes[p].created.load(ORD) != 0);
                        for prop in if pipe_in { vec!["C11", "C05"] } else { vec!["C05"] } {
                            ctx.sink.report(prop, "value_still_alive_after_every_owner_is_gone", format!("kept_alive:{}", if pipe_in { "pipe_in" } else { "no_pipe" }),
                                format!("object {}: every owner the program had is gone, all its operations have completed and all threads are quiet, but the protected value has not been destroyed{}", m,
                                    if pipe_in { " (a pipe_in exists on it: it may hold only a weak reference)" } else { "" }));
                        }
                    }
                }
            }
            Wait::TimedOut => outcome = Outcome::Inconclusive("watchdog while settling".into()),
        }
    }

    if outcome == Outcome::Stuck && ctx.sink.viol.lock().unwrap().is_empty() {
        diagnose(&ctx, &objects, stuck_snap.as_deref().unwrap_or(&[]), &mut diag, pprop);
    } else if outcome == Outcome::Stuck {
        describe_state(&ctx, &objects, stuck_snap.as_deref().unwrap_or(&[]), &mut diag);
        if !settle_note.is_empty() { diag.push(settle_note); }
    }

    // 6. history oracles
    let mut stats = oracle::RunStats::default();
    if outcome == Outcome::Completed {
        stats = oracle::check_history(&ctx);
    } else {
        stats.signature = oracle::signature(&ctx);
    }

    // 7. closing phase: try_sync probe on the idle objects, then drop every owner; drop counters
    if outcome == Outcome::Completed {
        let c = Arc::clone(&ctx);
        let objs: Vec<(usize, Arc<Obj>)> = objects.iter_mut().enumerate().filter_map(|(i, o)| o.take().map(|o| (i, o))).collect();
        let r = on_helper(native, watchdog, move || {
            for (i, d) in objs.into_iter() {
                if !c.prog.panics || !oracle::object_panicked(&c, i) {
                    let probe = { let _b = c.blocked(NO_OP, PH_PROBE); d.try_sync(|p| p.a) };
                    match probe {
                        Ok(a) => {
                            let (exact, expect) = oracle::expected_touches(&c, i);
                            if exact && a != expect {
                                c.sink.report("C01", "lost_or_extra_update_on_protected_value", "touch_count".into(), format!("object {}: {} updates recorded in the value, {} performed by completed operations", i, a, expect));
                            }
                        }
                        // without the hooks the monitor cannot see the queue going idle, so a Busy here proves nothing
                        Err(_) if !cfg!(feature = "hooks") => {}
                        Err(_) => c.sink.report("C09", "try_sync_busy_on_idle_object", "closing_try_sync_busy".into(), format!("object {} has nothing queued or running (queue reports idle) but try_sync returned Busy", i)),
                    }
                }
                let _b = c.blocked(NO_OP, PH_DROPOBJ);
                // half of the panicked objects lose their last owner on a thread that is itself unwinding (Desync::drop then takes its
                // no-panic path, which has to return quietly: a second panic would abort the process, which the driver reports)
                if c.prog.panics && oracle::object_panicked(&c, i) && mix(c.prog.run_seed ^ 0xd0d0 ^ i as u64) % 2 == 0 {
                    c.dropped_unwinding.fetch_add(1, Ordering::SeqCst);
                    let _ = catch_unwind(AssertUnwindSafe(|| { let _owner = d; panic!("vh-expected-panic (last owner of a panicked object dropped during unwinding)") }));
                    continue;
                }
                let r = catch_unwind(AssertUnwindSafe(|| std::mem::drop(d)));
                if r.is_err() && !c.prog.panics { c.sink.report("C05", "drop_panicked", "drop_panicked".into(), format!("dropping object {} panicked", i)); }
            }
        });
        match r {
            Ok(()) => {}
            Err(Wait::Quiescent(s)) => { outcome = Outcome::Stuck; diagnose(&ctx, &objects, &s, &mut diag, pprop); }
            Err(_) => outcome = Outcome::Inconclusive("watchdog in closing phase".into()),
        }
        if outcome == Outcome::Completed && !ctx.prog.pipes.is_empty() {
            // releasing a pipe's stream, closure and target is asynchronous: wait for it, or for everything to go quiet without it
            match wait_until(native, watchdog, || oracle::pipes_unreleased(&ctx).is_none()) {
                Wait::Done => {}
                Wait::Quiescent(s) => {
                    outcome = Outcome::Stuck;
                    if let Some((prop, sig, detail)) = oracle::pipes_unreleased(&ctx) { ctx.sink.report(prop, "pipe_resources_never_released", sig, format!("all threads quiet, but {}", detail)); }
                    describe_state(&ctx, &objects, &s, &mut diag);
                }
                Wait::TimedOut => outcome = Outcome::Inconclusive("watchdog waiting for pipe release".into()),
            }
            oracle::check_pipes_final(&ctx);
            // Clean-up that doubles as a check: every input that is still open is ended now. That is a stream event after the
            // target is gone (or the end of the input of a live pipe), so every pipe has to let go of its stream and closure.
            if outcome == Outcome::Completed {
                let c = Arc::clone(&ctx);
                let r = on_helper(native, watchdog, move || {
                    for p in 0..c.prog.pipes.len() {
                        let chained = c.prog.pipes.iter().any(|pd| pd.chain_to == Some(p));   // ended by the pipe that feeds it
                        if c.pipes[p].created.load(ORD) != 0 && c.pipes[p].closed_stamp.load(ORD) == 0 && !chained { crate::pipes::close_input(&c, p); }
                    }
                });
                match r {
                    Ok(()) => {}
                    Err(Wait::Quiescent(s)) => {
                        outcome = Outcome::Stuck;
                        let prop = if ctx.prog.pipes.iter().all(|pd| pd.through) { "C12" } else { "C11" };
                        ctx.sink.report(prop, "ending_the_input_after_the_target_is_gone_blocks", "pipe_end_blocks".into(),
                            "every owner of the pipe targets is gone; ending the input streams (the first stream event after that) never returned: the thread delivering the event is blocked inside the pipe's waker; all threads quiet".into());
                        describe_state(&ctx, &objects, &s, &mut diag);
                    }
                    Err(_) => outcome = Outcome::Inconclusive("closing the pipe inputs did not return".into()),
                }
                let all_released = |ctx: &RunCtx| ctx.pipes.iter().enumerate().all(|(p, st)| st.created.load(ORD) == 0 || (st.input_drops.load(ORD) == 1 && st.closure_drops.load(ORD) == 1)
                    || (ctx.prog.panics && oracle::object_panicked(ctx, ctx.prog.pipes[p].obj)));
                if outcome == Outcome::Completed {
                    match wait_until(native, watchdog, || all_released(&ctx)) {
                        Wait::Done => {}
                        Wait::Quiescent(s) => {
                            outcome = Outcome::Stuck;
                            for (p, st) in ctx.pipes.iter().enumerate() {
                                if st.created.load(ORD) != 0 && (st.input_drops.load(ORD) != 1 || st.closure_drops.load(ORD) != 1) {
                                    let pd = &ctx.prog.pipes[p];
                                    let prop = if !pd.through { "C11" } else if st.stream_dropped.load(ORD) != 0 { "C16" } else { "C12" };
                                    ctx.sink.report(prop, "pipe_not_released_after_input_ended", format!("pipe_kept_after_end:{}", if pd.through { "pipe" } else { "pipe_in" }),
                                        format!("pipe {}: the input has ended and every owner of the target is gone, but the input stream was dropped {} times and the processing closure {} times", p, st.input_drops.load(ORD), st.closure_drops.load(ORD)));
                                }
                            }
                            describe_state(&ctx, &objects, &s, &mut diag);
                        }
                        Wait::TimedOut => outcome = Outcome::Inconclusive("watchdog waiting for pipes to be released after their input ended".into()),
                    }
                }
            }
        }
        if outcome != Outcome::Stuck { oracle::check_after_close(&ctx, &mut stats); }
    }

    // 8. pool size
    if cfg!(feature = "hooks") {
        let over = POOL_OVER.load(Ordering::SeqCst);
        if over > 0 {
            ctx.sink.report("C17", "pool_exceeded_maximum", "pool_over".into(), format!("{} live pool threads observed at a spawn event, above the maximum configured at that moment (final maximum {})", over, cur_max));
        }
        stats.pool_peak = POOL_PEAK.load(Ordering::SeqCst);
        if native && outcome == Outcome::Completed {
            if let Some(s) = quiesce::snapshot() {
                let mut os = quiesce::pool_threads(&s);
                // a despawned thread can linger in /proc for a moment after it has been joined: only threads that stay count
                let mut tries = 0;
                while os > cur_max && tries < 50 { thread::sleep(Duration::from_millis(1)); tries += 1; if let Some(s) = quiesce::snapshot() { os = quiesce::pool_threads(&s); } }
                // the kernel's view lags behind (an exited thread can linger); it only counts together with the exact hook counter
                if os > cur_max && live_pool() > cur_max { ctx.sink.report("C17", "pool_exceeded_maximum", format!("pool_over_os:max{}", cur_max), format!("{} pool threads alive (kernel view) with maximum {}", os, cur_max)); }
                stats.pool_os = os;
            }
        }
    }
    noise::set_plan(noise::Plan::Off, 0);
    POOL_MAX_NOW.store(usize::MAX, Ordering::SeqCst);

    // unexpected panics on any thread
    if let Ok(p) = PANICS.lock() {
        for (name, msg) in p.iter() {
            if is_expected_panic(msg, &ctx) { continue; }
            if msg.contains("harness bug") { eprintln!("HARNESS BUG: {} on {}", msg, name); std::process::exit(2); }
            ctx.sink.report(panic_prop(msg, pprop), "unexpected_panic", format!("panic:{}", panic_words(msg)), format!("thread '{}' panicked: {}", name, msg));
        }
    }

    if outcome != Outcome::Completed {
        // threads are blocked inside the crate: dropping the last owners here would block the monitor as well
        std::mem::forget(objects);
    }
    if !native { *CUR_CTX.lock().unwrap() = None; }
    let violations = ctx.sink.viol.lock().unwrap().clone();
    RunResult { outcome, violations, ctx, diag, stats, plan }
}

type Task = Box<dyn FnOnce() + Send>;
struct Worker { tx: std::sync::mpsc::Sender<Task>, handle: thread::JoinHandle<()> }
static WORKERS: Mutex<Vec<(String, Worker)>> = Mutex::new(Vec::new());

/// Runs `f` on the long-lived harness thread of that name (created on first use). Thread creation is slow in this
/// environment, and an idle worker sleeps in an untimed futex wait, which is what the quiescence oracle expects.
fn spawn_task(name: String, f: Task) {
    let mut w = WORKERS.lock().unwrap();
    if !w.iter().any(|(n, _)| *n == name) {
        let (tx, rx) = std::sync::mpsc::channel::<Task>();
        let handle = thread::Builder::new().name(name.clone()).spawn(move || { while let Ok(job) = rx.recv() { job(); } }).expect("spawn");
        w.push((name.clone(), Worker { tx, handle }));
    }
    let worker = &w.iter().find(|(n, _)| *n == name).unwrap().1;
    worker.tx.send(f).expect("worker alive");
}

/// Ends all worker threads (needed before leaving main under Miri)
pub fn shutdown_workers() {
    let workers: Vec<(String, Worker)> = std::mem::take(&mut *WORKERS.lock().unwrap());
    for (_, w) in workers { std::mem::drop(w.tx); let _ = w.handle.join(); }
}

fn spawn_caller(ctx: &Arc<RunCtx>, t: usize, acts: Vec<TAct>, mortal: Option<Arc<Obj>>, barrier: Option<Arc<Barrier>>) {
    let c = Arc::clone(ctx);
    spawn_task(format!("vh-c{}", t), Box::new(move || {
        c.register_thread();
        if let Some(b) = barrier { b.wait(); }
        let r = catch_unwind(AssertUnwindSafe(|| run_thread(&c, acts, mortal)));
        if let Err(e) = r { thread_panicked(&c, &format!("vh-c{}", t), e); }
        if t < 10 { c.done_mask.fetch_or(1 << t, Ordering::SeqCst); }
        c.threads_done.fetch_add(1, Ordering::SeqCst);
        c.note_for_firer();
        c.main.unpark();
    }));
}

fn thread_panicked(_ctx: &RunCtx, _name: &str, _e: Box<dyn std::any::Any + Send>) {
    // recorded by the panic hook; classification happens at the end of the run
}

fn panic_words(msg: &str) -> String {
    msg.split(" @ ").next().unwrap_or("").chars().filter(|c| c.is_ascii_alphabetic() || *c == ' ').collect::<String>().split_whitespace().take(6).collect::<Vec<_>>().join("_")
}

fn state_words(s: &str) -> String {
    let mut out = vec![];
    for w in WAKE_STATES.iter().take(8) { if s.contains(&format!("State: {}", w)) { out.push(*w); } }
    if s.contains("busy flag") { out.push("busyflag"); }
    out.join("+")
}

/// Holds that are entered by operations issued in phase 0 (directly or nested)
fn phase0_holds(ctx: &RunCtx) -> Vec<usize> {
    let mut v = vec![];
    for acts in ctx.prog.threads.iter() { for a in acts { if let TAct::Op(o) = a { for s in &ctx.prog.ops[*o].body { if let Step::Hold(h) = s { if !v.contains(h) { v.push(*h); } } } } } }
    v
}

fn free_callers_done(ctx: &RunCtx) -> bool {
    if !ctx.prog.hold_wait_invoked.iter().all(|o| ctx.recs[*o].inv.load(ORD) != 0) { return false; }
    if let Some(ts) = &ctx.prog.hold_wait_threads { let m = ctx.done_mask.load(Ordering::SeqCst); return ts.iter().all(|t| m & (1 << *t) != 0); }
    // caller threads that only work on free objects must finish while the holds are closed; threads that touch held objects may be blocked
    let mut needed = 0; let mut total_free = 0;
    for acts in ctx.prog.threads.iter() {
        let touches_held = acts.iter().any(|a| match a { TAct::Op(o) | TAct::Join(o) => ctx.prog.held_objs.contains(&ctx.prog.ops[*o].obj) || ctx.prog.ops[*o].body.iter().any(|s| matches!(s, Step::Hold(_))), TAct::WaitStart(_) | TAct::WaitRet(_) | TAct::WaitInv(_) | TAct::WaitResolved(_) => true, _ => false });
        if !touches_held { total_free += 1; }
    }
    needed += total_free;
    // threads_done counts all threads; those blocked on held objects cannot be done yet, so require at least the free ones
    ctx.threads_done.load(Ordering::SeqCst) >= needed
}

fn expected_complete_or_pool0(ctx: &RunCtx) -> bool { ctx.prog.pool == 0 || expected_complete(ctx, false) }

fn incomplete_list(ctx: &RunCtx, only_free: bool) -> String {
    let mut v = vec![];
    for (i, def) in ctx.prog.ops.iter().enumerate() {
        let rec = &ctx.recs[i];
        if only_free && ctx.prog.held_objs.contains(&def.obj) { continue; }
        if rec.accepted.load(ORD) && rec.end.load(ORD) == 0 && matches!(def.kind, Kind::Desync | Kind::FutDesync | Kind::After | Kind::PipeItem) {
            v.push(format!("op {} ({} on object {}, {})", i, def.kind.name(), def.obj, if rec.start.load(ORD) != 0 { "started" } else { "never started" }));
        }
    }
    if v.is_empty() { "nothing incomplete".into() } else { v.join(", ") }
}

/// Every live object's queue is idle and empty, and no pool thread is flagged busy
fn settled(ctx: &RunCtx, live: &[(usize, Arc<Obj>)], cur_max: usize) -> (bool, String) {
    #[cfg(feature = "hooks")]
    {
        for (idx, d) in live {
            let idx = *idx;
            if ctx.prog.panics && oracle::object_panicked(ctx, idx) { continue; }
            let s = format!("{:?}", d.verif_queue());
            if !s.contains("State: Idle, Pending: 0") { return (false, format!("object {} queue is '{}'", idx, s)); }
        }
        if cur_max > 0 && !ctx.prog.panics {
            let s = format!("{:?}", scheduler());
            let flags = s.split(' ').next().unwrap_or("");
            if flags.contains('B') { return (false, format!("scheduler busy flag still set: '{}'", s)); }
        }
    }
    let _ = (ctx, live);
    (true, String::new())
}

// ---------------------------------------------------------------------------------------------
// Diagnosis of a stuck run

fn describe_state(ctx: &Arc<RunCtx>, objects: &[Option<Arc<Obj>>], snap: &[quiesce::ThreadSnap], diag: &mut Vec<String>) -> Vec<String> {
    // the Debug implementations take the queue-core lock: do it on a helper with a wall-clock guard so that a lock-order
    // deadlock inside the crate cannot hang the monitor (a timeout here only loses diagnostic text)
    let objs: Vec<Option<Arc<Obj>>> = objects.to_vec();
    let out = Arc::new(Mutex::new((vec![], String::new(), false)));
    let o2 = Arc::clone(&out);
    let _ = thread::Builder::new().name("vh-dbg".into()).spawn(move || {
        let mut states = vec![];
        for o in objs.iter() {
            #[cfg(feature = "hooks")]
            states.push(match o { Some(d) => format!("{:?}", d.verif_queue()), None => "(no owner held by the monitor)".to_string() });
            #[cfg(not(feature = "hooks"))]
            states.push(match o { Some(_) => "?".to_string(), None => "-".to_string() });
        }
        let sched = format!("{:?}", scheduler());
        *o2.lock().unwrap() = (states, sched, true);
    });
    let t0 = Instant::now();
    while !out.lock().unwrap().2 && t0.elapsed() < Duration::from_secs(2) { thread::sleep(Duration::from_millis(2)); }
    let (states, sched, ok) = out.lock().unwrap().clone();
    if !ok { diag.push("queue/scheduler Debug unavailable: a crate lock is held by a blocked thread".into()); }
    for (i, s) in states.iter().enumerate() { diag.push(format!("object {}: {}", i, s)); }
    diag.push(format!("scheduler: {} (pool maximum {}, live pool threads {})", sched, ctx.prog.pool, live_pool()));
    for t in snap { diag.push(format!("thread {} '{}' state={} waiting={} syscall=[{}]", t.tid, t.comm, t.state, t.waiting, t.syscall)); }
    for s in ctx.blocking.iter() {
        let v = s.load(ORD);
        if v != 0 {
            let subject = (v >> 16) as usize - 1; let phase = (v >> 8) & 0xff; let cc = v & 0xff;
            diag.push(format!("blocked: {} in {} (thread class {})", subject_name(ctx, subject), phase_name(phase), cc));
        }
    }
    diag.push(format!("incomplete: {}", incomplete_list(ctx, false)));
    states
}

fn subject_name(ctx: &RunCtx, subject: usize) -> String {
    if subject == NO_OP { "monitor helper".into() }
    else if subject >= crate::pipes::PIPE_BASE { format!("pipe {}", subject - crate::pipes::PIPE_BASE) }
    else { let d = &ctx.prog.ops[subject]; format!("op {} ({} on object {})", subject, d.kind.name(), d.obj) }
}

fn pool_cond(ctx: &RunCtx) -> String {
    if ctx.prog.pool == 0 { "pool0".into() } else { format!("pool{}", ctx.prog.pool) }
}

fn state_of(states: &[String], obj: usize) -> String {
    let s = states.get(obj).cloned().unwrap_or_default();
    for w in WAKE_STATES.iter().take(8) { if s.contains(&format!("State: {}", w)) { return w.to_string(); } }
    "unknown".into()
}

fn diagnose(ctx: &Arc<RunCtx>, objects: &[Option<Arc<Obj>>], snap: &[quiesce::ThreadSnap], diag: &mut Vec<String>, pprop: &'static str) {
    let states = describe_state(ctx, objects, snap, diag);
    let prog = &ctx.prog;
    let mut found: Vec<(&'static str, String, String, String)> = vec![];
    let gates_fired = |op: OpId| -> bool {
        let def = &prog.ops[op];
        def.body.iter().all(|s| match s { Step::Gate(g) => ctx.gates[*g].fire_done.load(ORD) != 0, _ => true }) && def.gate.map(|g| ctx.gates[g].fire_done.load(ORD) != 0).unwrap_or(true)
    };
    let had_busy = |obj: usize| prog.ops.iter().enumerate().any(|(i, d)| d.kind == Kind::TrySync && d.obj == obj && ctx.recs[i].outcome.load(ORD) == 2);
    let someone_inside = |obj: usize| ctx.objs[obj].occ.load(ORD) != 0;

    // (a) who is blocked, in what
    let mut sync_blocked_on: Vec<usize> = vec![];
    let mut await_blocked_on: Vec<usize> = vec![];
    for s in ctx.blocking.iter() {
        let v = s.load(ORD);
        if v == 0 { continue; }
        let subject = (v >> 16) as usize - 1; let phase = (v >> 8) & 0xff;
        if phase == PH_HOLD || phase == PH_FIREWAIT { continue; }
        if phase == PH_ATTEMPT {
            found.push(("C15", "scheduling_on_panicked_object_blocked".into(), format!("blocked_attempt:{}", pool_cond(ctx)), "a scheduling attempt on a panicked object never returned; all threads quiet".into()));
            continue;
        }
        if subject == NO_OP {
            let (prop, what) = match phase { PH_SWEEP => ("C04", "closing sync"), PH_PROBE => ("C09", "closing try_sync"), PH_DROPOBJ => ("C05", "drop of the last owner"), PH_DESPAWN => ("C17", "despawn"), _ => (pprop, "monitor helper") };
            found.push((prop, "blocked_forever".into(), format!("stuck:{}:{}", phase_name(phase), pool_cond(ctx)), format!("{} never returned", what)));
            continue;
        }
        if subject >= crate::pipes::PIPE_BASE {
            let p = subject - crate::pipes::PIPE_BASE;
            let prop = match phase { PH_CONSUME => "C12", PH_DROPSTREAM => "C16", _ => if prog.pipes[p].through { "C12" } else { "C11" } };
            found.push((prop, "blocked_forever".into(), format!("stuck:{}:pipe:{}", phase_name(phase), pool_cond(ctx)),
                format!("thread blocked in {} of pipe {} with all threads quiet; outputs read {}, items pushed {}, input closed {}", phase_name(phase), p,
                    ctx.pipes[p].outputs.lock().unwrap().len(), ctx.pipes[p].pushed.load(ORD), ctx.pipes[p].closed_stamp.load(ORD) != 0)));
            continue;
        }
        let def = &prog.ops[subject];
        let st = state_of(&states, def.obj);
        let prop: &'static str = match (phase, def.kind) {
            (PH_CALL, Kind::Sync) => {
                sync_blocked_on.push(def.obj);
                // a sync call made while the object was suspended is held work: once the resumer has been used or dropped it has to run
                let inv = ctx.recs[subject].inv.load(ORD);
                if prog.ops.iter().enumerate().any(|(i, d)| d.kind == Kind::Suspend && d.obj == def.obj && ctx.resume_stamp[i].load(ORD) != 0 && ctx.recs[i].resolve.load(ORD) != 0 && ctx.recs[i].resolve.load(ORD) < inv) {
                    found.push(("C13", "work_held_after_resume".into(), format!("sync_during_suspension_stuck:{}:{}", st, pool_cond(ctx)),
                        format!("op {} (sync on object {}) was called while the object was suspended; the resumer has been used or dropped and all threads are quiet, but the call never returned; queue state {}", subject, def.obj, st)));
                }
                "C04"
            }
            (PH_CALL, Kind::TrySync) => "C09",
            (PH_CALL, Kind::Desync) => "C03",
            (PH_CALL, Kind::Suspend) | (PH_AWAIT, Kind::Suspend) | (PH_RESUME, _) => "C13",
            (_, Kind::FutSync) => "C08",
            (PH_AWAIT, _) | (PH_SYNCWAIT, _) => { await_blocked_on.push(def.obj); "C07" }
            (PH_DROPOBJ, _) => "C05",
            (PH_DROPFUT, _) => "C07",
            _ => pprop,
        };
        let ended = ctx.recs[subject].end.load(ORD) != 0;
        found.push((prop, "blocked_forever".into(), format!("stuck:{}:{}:{}:{}", phase_name(phase), def.kind.name(), st, pool_cond(ctx)),
            format!("thread blocked in {} of op {} ({} on object {}) with all threads quiet; queue state {}; the operation itself has {}", phase_name(phase), subject, def.kind.name(), def.obj, st,
                if ended { "finished" } else if ctx.recs[subject].start.load(ORD) != 0 { "started but not finished" } else { "not started" })));
    }

    // (b0) an object that is marked as being run although nothing of it is executing: try_sync would answer Busy for ever
    for obj in 0..prog.n_obj {
        let st = state_of(&states, obj);
        if (st == "Running" || st == "AwokenWhileRunning") && !someone_inside(obj) && !(prog.panics && oracle::object_panicked(ctx, obj)) {
            found.push(("C09", "object_stays_busy_with_nothing_in_progress".into(), format!("busy_for_ever:{}:{}", st, pool_cond(ctx)),
                format!("object {}: no operation of it is executing and all threads are quiet, but its queue is in state {}: try_sync answers Busy for ever (and sync/desync never get through)", obj, st)));
        }
    }
    // (b) root cause per object: the operation at the head of the unfinished work
    for obj in 0..prog.n_obj {
        let mut inc: Vec<OpId> = (0..prog.ops.len()).filter(|i| prog.ops[*i].obj == obj && ctx.recs[*i].accepted.load(ORD) && ctx.recs[*i].end.load(ORD) == 0
            && matches!(prog.ops[*i].kind, Kind::Desync | Kind::FutDesync | Kind::After | Kind::PipeItem | Kind::FutSync)
            && (prog.ops[*i].kind != Kind::FutSync || ctx.recs[*i].start.load(ORD) != 0)).collect();
        if inc.is_empty() { continue; }
        inc.sort_by_key(|i| (ctx.recs[*i].start.load(ORD) == 0, ctx.recs[*i].inv.load(ORD)));
        let head = inc[0];
        let def = &prog.ops[head];
        let rec = &ctx.recs[head];
        let st = state_of(&states, obj);
        let started = rec.start.load(ORD) != 0;
        // "A Busy outcome leaves the object undisturbed, so every operation already queued or scheduled later still completes"
        if had_busy(obj) && !(ctx.prog.hold_phase && prog.held_objs.contains(&obj) && !ctx.holds.iter().all(|h| h.is_open())) {
            found.push(("C09", "operation_incomplete_after_busy_try_sync".into(), format!("incomplete_after_busy:{}:{}:{}", def.kind.name(), st, pool_cond(ctx)),
                format!("object {} answered Busy to a try_sync in this run; all threads are quiet and {} accepted operation(s) of it never completed (first: op {}, {}, {}); queue state {}",
                    obj, inc.len(), head, def.kind.name(), if started { "started" } else { "never started" }, st)));
        }
        if ctx.prog.hold_phase && prog.held_objs.contains(&obj) && !ctx.holds.iter().all(|h| h.is_open()) { continue; }
        if started && rec.pendings.load(ORD) > 0 && gates_fired(head) && matches!(def.kind, Kind::FutDesync | Kind::After | Kind::PipeItem | Kind::FutSync) {
            let prop = match def.kind { Kind::FutSync => "C08", _ => "C06" };
            found.push((prop, "suspended_operation_never_resumed".into(), format!("lost_wake:{}:{}:runner{}:{}", def.kind.name(), st, rec.runner.load(ORD), pool_cond(ctx)),
                format!("op {} ({} on object {}) was suspended {} time(s); every event it waits for has fired, but it was never polled to completion; queue state {}; it last ran in thread class {}",
                    head, def.kind.name(), obj, rec.pendings.load(ORD), st, rec.runner.load(ORD))));
        } else if !started {
            let prop = if had_busy(obj) && st == "Running" && !someone_inside(obj) { "C09" }
                       else if sync_blocked_on.contains(&obj) { "C04" }
                       else if await_blocked_on.contains(&obj) { "C07" }
                       else if def.kind == Kind::PipeItem { if prog.pipes[def.pipe.unwrap()].through { "C12" } else { "C11" } }
                       else { "C03" };
            found.push((prop, "accepted_operation_never_started".into(), format!("stranded:{}:{}:{}", def.kind.name(), st, pool_cond(ctx)),
                format!("op {} ({} on object {}) was accepted (its call returned at stamp {}) but never started; queue state {}; {} operation(s) of this object unfinished", head, def.kind.name(), obj, rec.ret.load(ORD), st, inc.len())));
        }
        if prog.ops.iter().enumerate().any(|(i, d)| d.kind == Kind::Suspend && d.obj == obj && ctx.resume_stamp[i].load(ORD) != 0) {
            found.push(("C13", "work_held_after_resume".into(), format!("suspend_stuck:{}:{}", st, pool_cond(ctx)), format!("object {} was resumed but {} held operation(s) never ran; queue state {}", obj, inc.len(), st)));
        }
    }
    for (p, pd) in prog.pipes.iter().enumerate() {
        if ctx.pipes[p].created.load(ORD) == 0 || prog.mortal == Some(pd.obj) || ctx.pipes[p].stream_dropped.load(ORD) != 0 { continue; }
        if prog.panics && oracle::object_panicked(ctx, pd.obj) { continue; }
        let waiting: Vec<OpId> = pd.items.iter().cloned().filter(|it| ctx.recs[*it].ret.load(ORD) != 0 && !ctx.recs[*it].accepted.load(ORD)).collect();
        if !waiting.is_empty() && !(pd.through && pipe_throttled(ctx, p)) {
            let prop = if pd.through { "C12" } else { "C11" };
            found.push((prop, "pipe_input_items_never_taken".into(), format!("pipe_input_stuck:{}:{}", if pd.through { "pipe" } else { "pipe_in" }, state_of(&states, pd.obj)),
                format!("pipe {}: {} item(s) were pushed into the input (first: op {}) but the pipe never polled the input again; target queue state {}; all threads quiet", p, waiting.len(), waiting[0], state_of(&states, pd.obj))));
        }
    }
    if found.is_empty() {
        found.push((pprop, "quiescent_but_incomplete".into(), format!("stuck:unknown:{}", pool_cond(ctx)), format!("all threads quiet but the run is incomplete: {}", incomplete_list(ctx, false))));
    }
    found.sort(); found.dedup();
    if ctx.prog.panics && ctx.prog.profile == "C15" {
        // the C15 scenarios inject panics: whatever got stuck afterwards is damage that was not contained
        for f in found.iter_mut() { if f.0 != "C15" { f.2 = format!("{}:{}", f.0, f.2); f.0 = "C15"; } }
    }
    for (prop, kind, sig, detail) in found { ctx.sink.report(prop, &kind, sig, detail); }
}


#[allow(dead_code)]
static _UNUSED: AtomicU32 = AtomicU32::new(0);
