//! Executes a program against the real crate with the monitors attached

use std::future::Future;
use std::pin::Pin;
use std::sync::atomic::{AtomicBool, AtomicI32, AtomicU32, AtomicU64, AtomicUsize, Ordering};
use std::sync::{Arc, Condvar, Mutex, OnceLock, Weak};
use std::task::{Context, Poll, Waker};
use std::thread::{self, Thread};

use desync::Desync;
use futures::channel::oneshot::Canceled;
use futures::future::BoxFuture;
use futures::FutureExt;

use crate::model::*;
use crate::rt::*;

pub type Obj = Desync<Payload>;
pub type ResFut<'a> = Pin<Box<dyn Future<Output = Result<u64, Canceled>> + Send + 'a>>;

// ---------------------------------------------------------------------------------------------
// Violations

#[derive(Clone, Debug)]
pub struct Violation {
    pub prop:   &'static str,
    pub kind:   String,
    /// Stable, line-number-free signature used to match known findings
    pub sig:    String,
    pub detail: String,
}

// ---------------------------------------------------------------------------------------------
// Per-object monitor state. Lives outside the protected value so that it can be read after the value is freed.

pub struct ObjState {
    pub idx:    usize,
    pub occ:    AtomicI32,
    pub inside: AtomicUsize,
    pub dead:   AtomicBool,
    pub drops:  AtomicU32,
    pub drop_stamp: AtomicU64,
}

/// The protected value. Plain (non-atomic) fields are read and written by every operation: race-detector bait.
pub struct Payload {
    /// replaced by every operation when it enters (see feature `uafbait`)
    pub heap:   Box<u64>,
    pub a:      u64,
    pub b:      u64,
    pub last:   usize,
    pub canary: u64,
    pub st:     Arc<ObjState>,
    pub sink:   Arc<Sink>,
}

pub const CANARY: u64 = 0x5ca1ab1e_0ddba11;

pub struct Sink {
    pub viol:       Mutex<Vec<Violation>>,
    pub has_viol:   AtomicBool,
}

impl Sink {
    pub fn report(&self, prop: &'static str, kind: &str, sig: String, detail: String) {
        self.has_viol.store(true, Ordering::SeqCst);
        let mut v = self.viol.lock().unwrap_or_else(|e| e.into_inner());
        if v.len() < 64 { v.push(Violation { prop, kind: kind.to_string(), sig, detail }); }
    }
}

impl Drop for Payload {
    fn drop(&mut self) {
        let occ = self.st.occ.load(ORD);
        if occ != 0 {
            self.sink.report("C05", "value_destroyed_while_operation_inside", format!("drop_during_op"),
                format!("object {} destroyed while op {} is inside it (occupancy {})", self.st.idx, self.st.inside.load(ORD) as i64 - 1, occ));
        }
        if self.canary != CANARY {
            self.sink.report("C14", "payload_canary_corrupt", "canary".into(), format!("object {} canary {:#x}", self.st.idx, self.canary));
        }
        self.canary = 0xdead;
        self.st.dead.store(true, ORD);
        self.st.drop_stamp.store(clock(), ORD);
        self.st.drops.fetch_add(1, ORD);
    }
}

// ---------------------------------------------------------------------------------------------
// Per-operation record: the history

pub struct OpRec {
    pub inv:        AtomicU64,
    pub ret:        AtomicU64,
    pub start:      AtomicU64,
    pub end:        AtomicU64,
    pub resolve:    AtomicU64,
    pub runs:       AtomicU32,
    pub pendings:   AtomicU32,
    /// 1 pool thread, 2 caller thread, 3 firer, 4 closing helper, 5 other
    pub runner:     AtomicU32,
    pub run_tid:    AtomicU64,
    pub call_tid:   AtomicU64,
    /// 0 none, 1 ok, 2 busy, 3 cancelled (future dropped before completion), 4 Err(Canceled), 5 panicked, 6 wrong value
    pub outcome:    AtomicU32,
    pub accepted:   AtomicBool,
    /// number of polls made by the awaiting side before the result was there
    pub wait_polls: AtomicU32,
    /// the future body was dropped before it completed
    pub cancelled:  AtomicBool,
    /// the caller has dropped the returned future (stamp)
    pub dropped_at: AtomicU64,
    /// stamp taken just before the returned future was polled for the first time
    pub polled_at:  AtomicU64,
    /// issued through the scheduler-level API (free functions / `Scheduler::after` / deprecated aliases) instead of `Desync`'s methods
    pub via_raw:    AtomicBool,
}

impl OpRec {
    fn new() -> OpRec {
        OpRec { inv: AtomicU64::new(0), ret: AtomicU64::new(0), start: AtomicU64::new(0), end: AtomicU64::new(0), resolve: AtomicU64::new(0),
                runs: AtomicU32::new(0), pendings: AtomicU32::new(0), runner: AtomicU32::new(0), run_tid: AtomicU64::new(0), call_tid: AtomicU64::new(0),
                outcome: AtomicU32::new(0), accepted: AtomicBool::new(false), wait_polls: AtomicU32::new(0), cancelled: AtomicBool::new(false),
                dropped_at: AtomicU64::new(0), polled_at: AtomicU64::new(0), via_raw: AtomicBool::new(false) }
    }
}

pub fn ctx_code() -> u32 {
    let t = thread::current();
    match t.name() {
        Some(n) if n.starts_with("desync jobs") => 1,
        Some(n) if n.starts_with("vh-c") => 2,
        Some(n) if n.starts_with("vh-f") => 3,
        Some(n) if n.starts_with("vh-z") => 4,
        _ => 5,
    }
}

pub fn tid_hash() -> u64 {
    use std::hash::{Hash, Hasher};
    let mut h = std::collections::hash_map::DefaultHasher::new();
    thread::current().id().hash(&mut h);
    h.finish() | 1
}

// ---------------------------------------------------------------------------------------------
// Gates (external events awaited by future operations) and holds (blocking bodies)

pub struct Gate {
    pub idx:        usize,
    pub fired:      AtomicBool,
    pub fire_done:  AtomicU64,
    cur:            Mutex<Option<Waker>>,
    stale:          Mutex<Vec<Waker>>,
    keep_stale:     bool,
    /// ops that have polled this gate (for classifying where the wake landed)
    pub waiters:    Mutex<Vec<OpId>>,
}

impl Gate {
    fn new(idx: usize, keep_stale: bool) -> Gate {
        Gate { idx, fired: AtomicBool::new(false), fire_done: AtomicU64::new(0), cur: Mutex::new(None), stale: Mutex::new(vec![]), keep_stale, waiters: Mutex::new(vec![]) }
    }

    pub fn fire(&self, rng: &mut Rng) {
        self.fired.store(true, Ordering::SeqCst);
        let w = self.cur.lock().unwrap().take();
        if let Some(w) = w {
            // an event source may call the waker any number of times: sometimes do so, back to back
            if rng.chance(1, 3) { for _ in 0..rng.range(1, 2) { w.wake_by_ref(); } }
            w.wake();
        }
        if self.keep_stale {
            let mut st: Vec<Waker> = std::mem::take(&mut *self.stale.lock().unwrap());
            rng.shuffle(&mut st);
            for w in st { w.wake(); }
        }
        self.fire_done.store(clock(), ORD);
    }
}

pub struct GateFut { gate: Arc<Gate>, ctx: Arc<RunCtx>, op: OpId, registered: bool }

impl Future for GateFut {
    type Output = ();
    fn poll(mut self: Pin<&mut Self>, cx: &mut Context<'_>) -> Poll<()> {
        if self.gate.fired.load(Ordering::SeqCst) { return Poll::Ready(()); }
        if !self.registered {
            self.registered = true;
            self.gate.waiters.lock().unwrap().push(self.op);
        }
        {
            let mut cur = self.gate.cur.lock().unwrap();
            let old = cur.replace(cx.waker().clone());
            if self.gate.keep_stale { if let Some(old) = old { self.gate.stale.lock().unwrap().push(old); } }
        }
        if self.gate.fired.load(Ordering::SeqCst) {
            // fired while we registered: the waker may or may not have been called; complete now
            return Poll::Ready(());
        }
        self.ctx.recs[self.op].pendings.fetch_add(1, ORD);
        Poll::Pending
    }
}

/// Completes at once; either wakes the task's own waker (a spurious wake during the poll) or stashes a clone of it
pub struct WakeNow { stash: Option<Arc<RunCtx>> }
impl Future for WakeNow {
    type Output = ();
    fn poll(self: Pin<&mut Self>, cx: &mut Context<'_>) -> Poll<()> {
        match &self.stash { Some(ctx) => ctx.stashed_wakers.lock().unwrap().push(cx.waker().clone()), None => cx.waker().wake_by_ref() }
        Poll::Ready(())
    }
}

/// Wakes its own waker during the poll and returns Pending once
pub struct YieldOnce { done: bool }
impl Future for YieldOnce {
    type Output = ();
    fn poll(mut self: Pin<&mut Self>, cx: &mut Context<'_>) -> Poll<()> {
        if self.done { return Poll::Ready(()); }
        self.done = true;
        cx.waker().wake_by_ref();
        Poll::Pending
    }
}

pub struct Hold { open: Mutex<bool>, cv: Condvar, pub inside: AtomicU32 }
impl Hold {
    fn new() -> Hold { Hold { open: Mutex::new(false), cv: Condvar::new(), inside: AtomicU32::new(0) } }
    pub fn wait(&self) {
        self.inside.fetch_add(1, Ordering::SeqCst);
        let mut g = self.open.lock().unwrap();
        while !*g { g = self.cv.wait(g).unwrap(); }
    }
    pub fn open(&self) { *self.open.lock().unwrap() = true; self.cv.notify_all(); }
    pub fn is_open(&self) -> bool { *self.open.lock().unwrap() }
}

// ---------------------------------------------------------------------------------------------
// Run context

pub const NO_OP: OpId = 2_000_000;
pub const PH_CALL: u64 = 1;     // inside the scheduling call itself (sync / try_sync / desync / future_* / after)
pub const PH_AWAIT: u64 = 2;    // awaiting (block_on) a returned future
pub const PH_SYNCWAIT: u64 = 3; // SchedulerFuture::sync()
pub const PH_DROPFUT: u64 = 4;  // dropping a returned future
pub const PH_DROPOBJ: u64 = 5;  // dropping an owner of an object
pub const PH_RESUME: u64 = 6;
pub const PH_CONSUME: u64 = 7;  // waiting for a pipe output
pub const PH_PIPECREATE: u64 = 8;
pub const PH_DROPSTREAM: u64 = 9;
pub const PH_HOLD: u64 = 10;    // blocked in a hold (expected while holds are closed)
pub const PH_SWEEP: u64 = 11;   // closing helper: sync sweep
pub const PH_PROBE: u64 = 12;   // closing helper: try_sync probe
pub const PH_DESPAWN: u64 = 13;
pub const PH_FIREWAIT: u64 = 14; // firer waiting for an op to return/start
pub const PH_ATTEMPT: u64 = 15;  // scheduling attempt on a panicked object

pub fn phase_name(p: u64) -> &'static str {
    match p { 1 => "call", 2 => "await", 3 => "future.sync()", 4 => "drop_future", 5 => "drop_object", 6 => "resume", 7 => "consume", 8 => "pipe_create",
              9 => "drop_stream", 10 => "hold", 11 => "closing_sync", 12 => "closing_try_sync", 13 => "despawn", 14 => "firer_wait", 15 => "attempt_on_panicked_object", _ => "?" }
}

pub struct PipeState {
    pub input:          Mutex<InputCore>,
    pub input_drops:    AtomicU32,
    pub closure_drops:  AtomicU32,
    pub created:        AtomicU64,
    /// the back-pressure depth currently set on the output stream
    pub cur_depth:      AtomicU32,
    pub stream_dropped: AtomicU64,
    pub outputs:        Mutex<Vec<u64>>,
    pub out_ended:      AtomicBool,
    pub consumer_parks: AtomicU32,
    /// the consumer's latest poll returned Pending and it has not been given an output since
    pub consumer_waiting: AtomicBool,
    pub pushed:         AtomicUsize,
    pub closed_stamp:   AtomicU64,
    pub mpsc_tx:        Mutex<Option<futures::channel::mpsc::UnboundedSender<OpId>>>,
    pub mpsc_rx:        Mutex<Option<futures::channel::mpsc::UnboundedReceiver<OpId>>>,
    pub push_lock:      Mutex<()>,
    /// classification of the moment the output stream was dropped (C16)
    pub drop_class:     AtomicU32,
}

pub struct InputCore { pub q: std::collections::VecDeque<OpId>, pub closed: bool, pub waker: Option<Waker>, pub polls: u32, pub pending_polls: u32 }

pub struct RunCtx {
    pub prog:       Program,
    pub recs:       Vec<OpRec>,
    pub objs:       Vec<Arc<ObjState>>,
    pub weak:       Vec<Mutex<Weak<Obj>>>,
    pub gates:      Vec<Arc<Gate>>,
    pub holds:      Vec<Arc<Hold>>,
    pub pipes:      Vec<PipeState>,
    pub sink:       Arc<Sink>,
    pub main:       Thread,
    pub firer:      OnceLock<Thread>,
    pub pusher:     OnceLock<Thread>,
    pub blocking:   Vec<AtomicU64>,
    pub threads_done: AtomicUsize,
    /// bit t set: caller thread t of phase 0 has finished
    pub done_mask:  AtomicU64,
    pub mortal_job_owner: Mutex<Option<Arc<Obj>>>,
    pub resumers:   Vec<Mutex<Option<desync::scheduler::QueueResumer>>>,
    /// stamp taken just before the resumer was used/dropped, per op
    pub resume_stamp: Vec<AtomicU64>,
    /// (queue state class at wake) x (runner context of the waiting op): counters for C06 coverage
    pub wake_classes: Vec<AtomicU32>,
    pub native:     bool,
    pub expected_panic_seen: AtomicU32,
    /// (C15) attempts made on panicked objects: (kind, object, failed loudly)
    pub attempts:   Mutex<Vec<(u8, usize, bool)>>,
    /// panicked objects whose last owner was dropped by an unwinding thread in the closing phase
    pub dropped_unwinding: AtomicU32,
    /// output streams handed over by the thread that created the pipe (dropped by a thread of a later phase)
    pub stream_stash: Mutex<std::collections::HashMap<usize, desync::PipeStream<u64>>>,
    pub stash:      Mutex<std::collections::HashMap<OpId, Held>>,
    pub waiters:    Mutex<Vec<Thread>>,
    pub stashed_wakers: Mutex<Vec<Waker>>,
    pub has_waiters: AtomicBool,
}

pub const WAKE_STATES: [&str; 9] = ["Idle", "Pending", "Running", "WaitingForWake", "WaitingForUnpark", "WaitingForPoll", "AwokenWhileRunning", "Panicked", "?"];

pub struct Blocked<'a> { ctx: &'a RunCtx, slot: usize }
impl<'a> Drop for Blocked<'a> { fn drop(&mut self) { if self.slot != usize::MAX { self.ctx.blocking[self.slot].store(0, ORD); } } }

impl RunCtx {
    pub fn token(&self, op: OpId) -> u64 { mix(self.prog.run_seed ^ ((op as u64) << 17)) | 1 }

    pub fn report(&self, prop: &'static str, kind: &str, sig: String, detail: String) { self.sink.report(prop, kind, sig, detail); self.main.unpark(); }

    /// Marks the calling thread as being inside a potentially blocking API call on behalf of `op`
    pub fn blocked(&self, op: OpId, phase: u64) -> Blocked<'_> {
        let v = ((op as u64 + 1) << 16) | (phase << 8) | ctx_code() as u64;
        for (i, s) in self.blocking.iter().enumerate() {
            if s.load(ORD) == 0 && s.compare_exchange(0, v, ORD, ORD).is_ok() { return Blocked { ctx: self, slot: i }; }
        }
        Blocked { ctx: self, slot: usize::MAX }
    }

    pub fn obj(&self, i: usize) -> Option<Arc<Obj>> { self.weak[i].lock().unwrap().upgrade() }

    pub fn progress(&self) { self.main.unpark(); }

    /// Threads of this run that wait (parked) for a stamp of another thread are woken after every stamp they may be waiting for.
    /// All harness threads register themselves before the start barrier and park/unpark carries its own token, so no wake-up can
    /// be missed whatever the memory ordering of the stamps themselves is (they are Relaxed in the race-detecting builds).
    pub fn note_for_firer(&self) {
        if !self.has_waiters.load(Ordering::Relaxed) { return; }
        for t in self.waiters.lock().unwrap().iter() { t.unpark(); }
    }

    /// Called by every harness thread of the run before the start barrier
    pub fn register_thread(&self) { self.waiters.lock().unwrap().push(thread::current()); }
}

// ---------------------------------------------------------------------------------------------
// The span of an operation: from the moment its closure is invoked until it returns / its future completes or is dropped

/// Raw pointer to the protected value, derived from the `&mut T` the operation was handed. It is only used while that borrow is
/// still alive (the span ends before the closure returns / the future is destroyed), so every use is legitimate on a correct
/// crate - and is exactly what the aliasing model of Miri, ASan and TSan look at when two operations overlap.
struct PayloadPtr(*mut Payload);
unsafe impl Send for PayloadPtr {}
unsafe impl Sync for PayloadPtr {}

struct HeapPtr(*mut u64);
unsafe impl Send for HeapPtr {}

pub struct Span { ctx: Arc<RunCtx>, op: OpId, done: bool, pl: PayloadPtr, heap: HeapPtr }

impl Span {
    pub fn enter(ctx: &Arc<RunCtx>, op: OpId, p: &mut Payload) -> Span {
        let rec = &ctx.recs[op];
        let def = &ctx.prog.ops[op];
        let runs = rec.runs.fetch_add(1, ORD);
        if runs != 0 {
            ctx.report("C03", "operation_ran_more_than_once", format!("dup:{}", def.kind.name()), format!("op {} ({}) invoked {} times", op, def.kind.name(), runs + 1));
        }
        rec.runner.store(ctx_code(), ORD);
        rec.run_tid.store(tid_hash(), ORD);
        let st = &p.st;
        if st.idx != def.obj {
            ctx.report("C14", "wrong_object", "wrong_object".into(), format!("op {} for object {} was handed object {}", op, def.obj, st.idx));
        }
        if st.dead.load(ORD) {
            ctx.report("C05", "operation_ran_after_value_destroyed", format!("after_free:{}", def.kind.name()), format!("op {} ({}) on object {} started after the value was destroyed", op, def.kind.name(), def.obj));
        }
        rec.start.store(clock(), ORD);
        let before = st.occ.fetch_add(1, ORD);
        if before != 0 {
            let other = st.inside.load(ORD) as i64 - 1;
            let ok = if other >= 0 { ctx.prog.ops[other as usize].kind.name() } else { "?" };
            let detail = format!("op {} ({}) entered object {} while op {} ({}) was still inside (occupancy {}); runner ctx {}", op, def.kind.name(), def.obj, other, ok, before, ctx_code());
            ctx.report("C01", "overlap_at_enter", format!("overlap:{}+{}", def.kind.name(), ok), detail.clone());
            // two bodies inside one value at once each hold the `&mut` they were given: aliasing mutable borrows in safe client code
            ctx.report("C14", "two_operations_hold_the_value_mutably_at_once", format!("overlap:{}+{}", def.kind.name(), ok), detail.clone());
            // the same fact breaks the exclusivity clause of the more specific properties
            let other_kind = if other >= 0 { Some(ctx.prog.ops[other as usize].kind) } else { None };
            for k in [Some(def.kind), other_kind].into_iter().flatten() {
                match k {
                    Kind::TrySync => ctx.report("C09", "try_sync_without_exclusive_access", format!("overlap:{}+{}", def.kind.name(), ok), detail.clone()),
                    Kind::FutSync => ctx.report("C08", "future_sync_slot_not_exclusive", format!("overlap:{}+{}", def.kind.name(), ok), detail.clone()),
                    Kind::PipeItem => { let through = ctx.prog.ops.iter().find(|o| o.kind == Kind::PipeItem).and_then(|o| o.pipe).map(|p| ctx.prog.pipes[p].through).unwrap_or(false);
                                        ctx.report(if through { "C12" } else { "C11" }, "pipe_item_without_exclusive_access", format!("overlap:{}+{}", def.kind.name(), ok), detail.clone()) }
                    _ => {}
                }
            }
        }
        st.inside.store(op + 1, ORD);
        ctx.note_for_firer();
        // what user code does all the time: keep a pointer into the value's own heap data for the duration of the operation
        let heap = if cfg!(feature = "uafbait") { p.heap = Box::new(op as u64); HeapPtr(&mut *p.heap as *mut u64) } else { HeapPtr(std::ptr::null_mut()) };
        Span { ctx: Arc::clone(ctx), op, done: false, pl: PayloadPtr(p as *mut Payload), heap }
    }

    pub fn finish(mut self) { self.done = true; }

    /// The protected value, through the borrow this operation was given (all accesses of a body go through here, so that an
    /// access made after ANOTHER operation obtained its own `&mut` is visible to the aliasing model of Miri)
    #[allow(clippy::mut_from_ref)]
    pub fn payload(&self) -> &mut Payload { unsafe { &mut *self.pl.0 } }
}

impl Drop for Span {
    fn drop(&mut self) {
        let ctx = &self.ctx;
        let rec = &ctx.recs[self.op];
        let def = &ctx.prog.ops[self.op];
        if !self.done {
            if thread::panicking() {
                rec.outcome.store(5, ORD);
                // where the panic happened (a future may have been started elsewhere)
                rec.runner.store(ctx_code(), ORD);
                rec.run_tid.store(tid_hash(), ORD);
            } else {
                // the future was dropped before completion: the operation is still "executing" until this drop is over
                rec.cancelled.store(true, ORD);
                rec.outcome.store(3, ORD);
                if ctx.native { let t = std::time::Instant::now(); while t.elapsed().as_micros() < 20 { std::hint::spin_loop(); } }
            }
        }
        let st = &ctx.objs[def.obj];
        if !st.dead.load(ORD) {
            // last access of this operation to the value, through the borrow it was given
            unsafe { (*self.pl.0).last = self.op; (*self.pl.0).b = (*self.pl.0).b.rotate_left(1); }
            if cfg!(feature = "uafbait") && !self.heap.0.is_null() { unsafe { *self.heap.0 = (*self.heap.0).wrapping_add(1); } }
        }
        if st.dead.load(ORD) {
            ctx.report("C05", "operation_still_inside_destroyed_value", format!("after_free_exit:{}", def.kind.name()), format!("op {} on object {} finished after the value was destroyed", self.op, def.obj));
        }
        let before = st.occ.fetch_sub(1, ORD);
        if before != 1 {
            ctx.report("C01", "overlap_at_exit", format!("overlap_exit:{}", def.kind.name()), format!("op {} ({}) left object {} with occupancy {}", self.op, def.kind.name(), def.obj, before));
        }
        // what this operation recorded about itself (outcome, runner) is published with its end stamp: the monitor pairs this with an
        // acquire fence once it has seen the stamp (the records themselves stay Relaxed in the interpreter's build)
        std::sync::atomic::fence(Ordering::Release);
        rec.end.store(clock(), ORD);
        ctx.progress();
    }
}

impl Payload {
    pub fn touch(&mut self, ctx: &RunCtx, op: OpId) {
        let occ = self.st.occ.load(ORD);
        if occ != 1 {
            ctx.report("C01", "overlap_during_body", "overlap_touch".into(), format!("op {} saw occupancy {} on object {} (op {} also inside)", op, occ, self.st.idx, self.st.inside.load(ORD) as i64 - 1));
        }
        if self.st.dead.load(ORD) || self.canary != CANARY {
            ctx.report("C05", "access_after_value_destroyed", "after_free_touch".into(), format!("op {} touched object {} after destruction (canary {:#x})", op, self.st.idx, self.canary));
        }
        // plain, unsynchronised read-modify-write
        self.a = self.a.wrapping_add(1);
        self.b ^= self.a.rotate_left(7);
        self.last = op;
        std::hint::black_box(&mut self.b);
    }
}

// ---------------------------------------------------------------------------------------------
// Bodies

pub fn closure_body(ctx: &Arc<RunCtx>, op: OpId, p: &mut Payload) -> u64 {
    let span = Span::enter(ctx, op, p);
    let n = ctx.prog.ops[op].body.len();
    for i in 0..n {
        match ctx.prog.ops[op].body[i] {
            Step::Touch => span.payload().touch(ctx, op),
            Step::Nest(c) => nested_blocking(ctx, c),
            Step::Hold(h) => { let _b = ctx.blocked(op, PH_HOLD); ctx.progress(); ctx.holds[h].wait(); }
            Step::Panic => { ctx.expected_panic_seen.fetch_add(1, ORD); crate::run::note_dying_pool_thread(); panic!("vh-expected-panic op {}", op) }
            Step::DropMortal => {
                let owner = ctx.mortal_job_owner.lock().unwrap().take();
                if let Some(owner) = owner { drop_owner(ctx, op, owner); }
            }
            Step::FireStashed => { let ws: Vec<Waker> = ctx.stashed_wakers.lock().unwrap().clone(); for w in ws { w.wake_by_ref(); } }
            Step::Pause => pause(ctx),
            Step::Yield | Step::Gate(_) | Step::WakeOnly | Step::StashWaker | Step::Retain => { /* future-only steps are ignored in closures */ }
        }
    }
    span.finish();
    ctx.token(op)
}

/// A future that keeps what its body left in `kept` until the future object is dropped (completion alone does not release it)
pub struct Retaining<'a> { inner: BoxFuture<'a, u64>, kept: Arc<Mutex<Option<Span>>> }
impl<'a> Future for Retaining<'a> {
    type Output = u64;
    fn poll(mut self: Pin<&mut Self>, cx: &mut Context<'_>) -> Poll<u64> { self.inner.as_mut().poll(cx) }
}
impl<'a> Drop for Retaining<'a> {
    fn drop(&mut self) {
        // the operation's last access to the value happens here (in Span::drop), a little while after the drop began
        if let Some(span) = self.kept.lock().unwrap().take() {
            if span.ctx.native { let t = std::time::Instant::now(); while t.elapsed().as_micros() < 150 { std::hint::spin_loop(); } } else { thread::yield_now(); }
            std::mem::drop(span);
        }
    }
}

pub fn future_body<'a>(ctx: Arc<RunCtx>, op: OpId, p: &'a mut Payload) -> BoxFuture<'a, u64> {
    if ctx.prog.ops[op].body.last() == Some(&Step::Retain) {
        let kept = Arc::new(Mutex::new(None));
        return Retaining { inner: future_steps(ctx, op, p, Some(Arc::clone(&kept))), kept }.boxed();
    }
    future_steps(ctx, op, p, None)
}

fn future_steps<'a>(ctx: Arc<RunCtx>, op: OpId, p: &'a mut Payload, keep: Option<Arc<Mutex<Option<Span>>>>) -> BoxFuture<'a, u64> {
    async move {
        let span = Span::enter(&ctx, op, p);
        let n = ctx.prog.ops[op].body.len();
        for i in 0..n {
            match ctx.prog.ops[op].body[i] {
                Step::Touch => span.payload().touch(&ctx, op),
                Step::Yield => { ctx.recs[op].pendings.fetch_add(1, ORD); YieldOnce { done: false }.await }
                Step::Gate(g) => GateFut { gate: Arc::clone(&ctx.gates[g]), ctx: Arc::clone(&ctx), op, registered: false }.await,
                Step::Nest(c) => nested_async(Arc::clone(&ctx), c).await,
                Step::Panic => { ctx.expected_panic_seen.fetch_add(1, ORD); crate::run::note_dying_pool_thread(); panic!("vh-expected-panic op {}", op) }
                Step::WakeOnly => WakeNow { stash: None }.await,
                Step::StashWaker => WakeNow { stash: Some(Arc::clone(&ctx)) }.await,
                Step::FireStashed => { let ws: Vec<Waker> = ctx.stashed_wakers.lock().unwrap().clone(); for w in ws { w.wake_by_ref(); } }
                Step::Pause => pause(&ctx),
                Step::Hold(_) | Step::DropMortal | Step::Retain => {}
            }
        }
        match keep {
            // the body is complete, but the future goes on holding the value until it is dropped
            Some(slot) => { let mut span = span; span.done = true; *slot.lock().unwrap() = Some(span); }
            None => span.finish(),
        }
        ctx.token(op)
    }.boxed()
}

fn pause(ctx: &RunCtx) {
    if ctx.native { let t = std::time::Instant::now(); while t.elapsed().as_micros() < 30 { std::hint::spin_loop(); } } else { thread::yield_now(); }
}

/// Drops an owner of an object (possibly the last one, in which case Desync::drop runs here)
/// Every fourth operation goes through the scheduler-level API (the free functions of `desync::scheduler` and
/// `Scheduler::after` on the object's job queue, plus the deprecated aliases `Desync::async` / `Desync::future`) instead of the
/// methods of `Desync`: the properties speak of "a Desync (or job queue)", and `Scheduler::after` is code that `Desync::after`
/// never reaches. The closure dereferences the same pointer that `Desync` itself hands to its operations (hook accessor).
#[cfg(feature = "hooks")]
pub fn via_scheduler(ctx: &RunCtx, op: OpId) -> bool { mix(ctx.prog.run_seed ^ 0x5c4ed ^ ((op as u64) << 9)) % 4 == 0 }
#[cfg(not(feature = "hooks"))]
pub fn via_scheduler(_ctx: &RunCtx, _op: OpId) -> bool { false }

/// The queue of an object and the pointer to its value, for operations issued through the scheduler-level API
#[cfg(feature = "hooks")]
fn raw_parts(d: &Obj) -> (Arc<desync::scheduler::JobQueue>, PayloadPtr) { (Arc::clone(d.verif_queue()), PayloadPtr(d.verif_data())) }

pub fn drop_owner(ctx: &RunCtx, op: OpId, owner: Arc<Obj>) {
    let _b = ctx.blocked(op, PH_DROPOBJ);
    std::mem::drop(owner);
}

fn check_value(ctx: &RunCtx, op: OpId, got: Result<u64, Canceled>, what: &str) {
    let rec = &ctx.recs[op];
    let def = &ctx.prog.ops[op];
    let prop: &'static str = match def.kind { Kind::FutSync => "C08", Kind::FutDesync | Kind::After => "C07", Kind::Sync => "C04", Kind::TrySync => "C09", _ => "C07" };
    rec.resolve.store(clock(), ORD);
    match got {
        Ok(v) if v == ctx.token(op) => {
            rec.outcome.store(1, ORD);
            let end = rec.end.load(ORD);
            if end == 0 {
                ctx.report(prop, "resolved_before_operation_finished", format!("early_resolve:{}:{}", def.kind.name(), what), format!("{} of op {} ({}) produced the value although the operation has not finished", what, op, def.kind.name()));
            }
        }
        Ok(v) => {
            rec.outcome.store(6, ORD);
            ctx.report(prop, "wrong_value", format!("wrong_value:{}:{}", def.kind.name(), what), format!("{} of op {} ({}) produced {:#x}, expected its own token {:#x}", what, op, def.kind.name(), v, ctx.token(op)));
        }
        Err(_) if ctx.prog.panics && crate::oracle::object_panicked(ctx, def.obj) => { if rec.outcome.load(ORD) != 5 { rec.outcome.store(4, ORD); } }
        Err(_) => {
            rec.outcome.store(4, ORD);
            ctx.report(prop, "resolved_to_canceled", format!("canceled:{}:{}", def.kind.name(), what), format!("{} of op {} ({}) resolved to Err(Canceled) although nothing cancelled it", what, op, def.kind.name()));
        }
    }
}

/// Creates the future of a future-returning operation (the scheduling call happens here)
pub fn issue_future<'d>(ctx: &Arc<RunCtx>, op: OpId, d: &'d Obj) -> ResFut<'d> {
    let rec = &ctx.recs[op];
    let def = &ctx.prog.ops[op];
    rec.call_tid.store(tid_hash(), ORD);
    rec.accepted.store(true, ORD);
    let c2 = Arc::clone(ctx);
    rec.inv.store(clock(), ORD);
    let fut: ResFut<'d> = {
        let _b = ctx.blocked(op, PH_CALL);
        #[cfg(feature = "hooks")]
        let raw = if via_scheduler(ctx, op) { rec.via_raw.store(true, ORD); Some(raw_parts(d)) } else { None };
        #[cfg(not(feature = "hooks"))]
        let raw: Option<((), ())> = None;
        match (def.kind, raw) {
            #[cfg(feature = "hooks")]
            (Kind::FutDesync, Some((q, ptr))) => {
                if op % 2 == 0 { Box::pin(desync::scheduler::future_desync(&q, move || { let ptr = ptr; future_body(c2, op, unsafe { &mut *ptr.0 }) })) }
                else { #[allow(deprecated)] let f = d.future(move |p| future_body(c2, op, p)); Box::pin(f) }
            }
            #[cfg(feature = "hooks")]
            (Kind::After, Some((q, ptr))) => {
                let g = def.gate.expect("after needs a gate");
                let gf = GateFut { gate: Arc::clone(&ctx.gates[g]), ctx: Arc::clone(ctx), op, registered: false };
                Box::pin(desync::scheduler::scheduler().after(&q, gf, move |_| { let ptr = ptr; closure_body(&c2, op, unsafe { &mut *ptr.0 }) }))
            }
            #[cfg(feature = "hooks")]
            // (the body is wrapped the way Desync::future_sync wraps it, so that it is destroyed the moment it completes: the
            // scheduler-level function keeps a completed future object until the returned future goes away, which is within the
            // statement of C01 - "until the future completes or is dropped" - but not what a `Retain` body assumes)
            (Kind::FutSync, Some((q, ptr))) => Box::pin(desync::scheduler::future_sync(&q, move || { let ptr = ptr; let f = future_body(c2, op, unsafe { &mut *ptr.0 }); async move { f.await } })),
            (Kind::FutDesync, _) => Box::pin(d.future_desync(move |p| future_body(c2, op, p))),
            (Kind::After, _) => {
                let g = def.gate.expect("after needs a gate");
                let gf = GateFut { gate: Arc::clone(&ctx.gates[g]), ctx: Arc::clone(ctx), op, registered: false };
                Box::pin(d.after(gf, move |p, _| closure_body(&c2, op, p)))
            }
            (Kind::FutSync, _) => Box::pin(d.future_sync(move |p| future_body(c2, op, p))),
            (other, _) => panic!("harness bug: issue_future on {:?}", other),
        }
    };
    rec.ret.store(clock(), ORD);
    ctx.note_for_firer();
    fut
}

/// Performs a non-future operation, or a future operation whose disposition needs no later action
fn issue_simple(ctx: &Arc<RunCtx>, op: OpId, d: &Obj) {
    let rec = &ctx.recs[op];
    let def = &ctx.prog.ops[op];
    let c2 = Arc::clone(ctx);
    match def.kind {
        Kind::Desync => {
            rec.call_tid.store(tid_hash(), ORD);
            rec.accepted.store(true, ORD);
            rec.inv.store(clock(), ORD);
            {
                let _b = ctx.blocked(op, PH_CALL);
                #[cfg(feature = "hooks")]
                {
                    if via_scheduler(ctx, op) {
                        rec.via_raw.store(true, ORD);
                        let (q, ptr) = raw_parts(d);
                        if op % 2 == 0 { desync::scheduler::desync(&q, move || { let ptr = ptr; closure_body(&c2, op, unsafe { &mut *ptr.0 }); }); }
                        else { #[allow(deprecated)] d.r#async(move |p| { closure_body(&c2, op, p); }); }
                    } else { d.desync(move |p| { closure_body(&c2, op, p); }); }
                }
                #[cfg(not(feature = "hooks"))]
                d.desync(move |p| { closure_body(&c2, op, p); });
            }
            rec.ret.store(clock(), ORD);
            ctx.note_for_firer();
        }
        Kind::Sync => {
            rec.call_tid.store(tid_hash(), ORD);
            rec.accepted.store(true, ORD);
            // a value on the caller's stack that the closure borrows and mutates: must only be touched between call and return
            let mut frame: [u64; 4] = [CANARY, 0, 0, CANARY];
            rec.inv.store(clock(), ORD);
            ctx.note_for_firer();
            #[cfg(feature = "hooks")]
            let v = { let _b = ctx.blocked(op, PH_CALL);
                if via_scheduler(ctx, op) {
                    rec.via_raw.store(true, ORD);
                    let (q, ptr) = raw_parts(d);
                    desync::scheduler::sync(&q, || { let ptr = &ptr; frame[1] = frame[1].wrapping_add(1); let v = closure_body(&c2, op, unsafe { &mut *ptr.0 }); frame[2] = v; v })
                } else { d.sync(|p| { frame[1] = frame[1].wrapping_add(1); let v = closure_body(&c2, op, p); frame[2] = v; v }) } };
            #[cfg(not(feature = "hooks"))]
            let v = { let _b = ctx.blocked(op, PH_CALL); d.sync(|p| { frame[1] = frame[1].wrapping_add(1); let v = closure_body(&c2, op, p); frame[2] = v; v }) };
            rec.ret.store(clock(), ORD);
            ctx.note_for_firer();
            if frame[0] != CANARY || frame[3] != CANARY || frame[1] != 1 || frame[2] != v {
                ctx.report("C04", "sync_closure_not_run_exactly_once_within_call", "sync_frame".into(), format!("op {}: borrowed frame after sync = {:?}", op, frame));
            }
            check_value(ctx, op, Ok(v), "sync return");
            let (s, e, i, r) = (rec.start.load(ORD), rec.end.load(ORD), rec.inv.load(ORD), rec.ret.load(ORD));
            if !(i < s && s < e && e < r) {
                ctx.report("C04", "sync_closure_outside_call", "sync_window".into(), format!("op {}: inv {} start {} end {} ret {}", op, i, s, e, r));
            }
        }
        Kind::TrySync => {
            rec.call_tid.store(tid_hash(), ORD);
            let mut frame: [u64; 3] = [CANARY, 0, CANARY];
            rec.inv.store(clock(), ORD);
            #[cfg(feature = "hooks")]
            let r = { let _b = ctx.blocked(op, PH_CALL);
                if via_scheduler(ctx, op) {
                    rec.via_raw.store(true, ORD);
                    let (q, ptr) = raw_parts(d);
                    desync::scheduler::try_sync(&q, || { let ptr = &ptr; frame[1] += 1; closure_body(&c2, op, unsafe { &mut *ptr.0 }) })
                } else { d.try_sync(|p| { frame[1] += 1; closure_body(&c2, op, p) }) } };
            #[cfg(not(feature = "hooks"))]
            let r = { let _b = ctx.blocked(op, PH_CALL); d.try_sync(|p| { frame[1] += 1; closure_body(&c2, op, p) }) };
            rec.ret.store(clock(), ORD);
            ctx.note_for_firer();
            let runs = rec.runs.load(ORD);
            match r {
                Ok(v) => {
                    rec.accepted.store(true, ORD);
                    if runs != 1 || frame[1] != 1 { ctx.report("C09", "try_sync_ok_without_running_once", "try_ok_runs".into(), format!("op {}: Ok but closure ran {} times", op, runs)); }
                    check_value(ctx, op, Ok(v), "try_sync return");
                    let (s, e, i, r) = (rec.start.load(ORD), rec.end.load(ORD), rec.inv.load(ORD), rec.ret.load(ORD));
                    if !(i < s && s < e && e < r) { ctx.report("C09", "try_sync_closure_outside_call", "try_window".into(), format!("op {}: inv {} start {} end {} ret {}", op, i, s, e, r)); }
                }
                Err(_) => {
                    rec.outcome.store(2, ORD);
                    if runs != 0 || frame[1] != 0 { ctx.report("C09", "try_sync_busy_but_closure_ran", "try_busy_ran".into(), format!("op {}: Busy but closure ran {} times", op, runs)); }
                }
            }
            if frame[0] != CANARY || frame[2] != CANARY { ctx.report("C14", "stack_canary", "stack_canary".into(), format!("op {} frame {:?}", op, frame)); }
        }
        Kind::FutDesync | Kind::After | Kind::FutSync => {
            let fut = issue_future(ctx, op, d);
            match def.disp {
                Disp::Detach | Disp::DropNow => { let _b = ctx.blocked(op, PH_DROPFUT); std::mem::drop(fut); rec.dropped_at.store(clock(), ORD); }
                Disp::PollDrop(n) => poll_then_drop(ctx, op, fut, n),
                other => panic!("harness bug: issue_simple with disposition {:?}", other),
            }
        }
        other => panic!("harness bug: issue_simple on {:?}", other),
    }
}

fn poll_then_drop(ctx: &Arc<RunCtx>, op: OpId, mut fut: ResFut<'_>, n: u8) {
    let rec = &ctx.recs[op];
    if n > 0 { let _ = rec.polled_at.compare_exchange(0, clock(), ORD, ORD); }
    let cw = Arc::new(CountWaker(AtomicU64::new(0)));
    let waker = Waker::from(Arc::clone(&cw));
    let mut cx = Context::from_waker(&waker);
    for _ in 0..n {
        let r = { let _b = ctx.blocked(op, PH_AWAIT); fut.as_mut().poll(&mut cx) };
        match r {
            Poll::Ready(v) => { check_value(ctx, op, v, "poll"); break; }
            Poll::Pending => { rec.wait_polls.fetch_add(1, ORD); }
        }
    }
    { let _b = ctx.blocked(op, PH_DROPFUT); std::mem::drop(fut); }
    rec.dropped_at.store(clock(), ORD);
    ctx.note_for_firer();
}

fn await_blocking(ctx: &Arc<RunCtx>, op: OpId, mut fut: ResFut<'_>) {
    let rec = &ctx.recs[op];
    let _ = rec.polled_at.compare_exchange(0, clock(), ORD, ORD);
    let v = { let _b = ctx.blocked(op, PH_AWAIT); block_on_with(fut.as_mut(), |_| { rec.wait_polls.fetch_add(1, ORD); }) };
    check_value(ctx, op, v, "await");
    std::mem::drop(fut);
}

/// A nested operation issued from inside a closure body (may block the running thread: sync, await)
fn nested_blocking(ctx: &Arc<RunCtx>, c: OpId) {
    let def = &ctx.prog.ops[c];
    let d = match ctx.obj(def.obj) { Some(d) => d, None => return };
    match (def.kind, def.disp) {
        (Kind::FutDesync | Kind::After | Kind::FutSync, Disp::Await) => { let fut = issue_future(ctx, c, &d); await_blocking(ctx, c, fut); }
        (Kind::FutDesync | Kind::After, Disp::SyncWait) => sync_wait(ctx, c, &d),
        _ => issue_simple(ctx, c, &d),
    }
}

/// A nested operation issued from inside a future body
fn nested_async(ctx: Arc<RunCtx>, c: OpId) -> BoxFuture<'static, ()> {
    async move {
        let def = &ctx.prog.ops[c];
        let d = match ctx.obj(def.obj) { Some(d) => d, None => return };
        match (def.kind, def.disp) {
            (Kind::FutDesync | Kind::After | Kind::FutSync, Disp::Await) => {
                let fut = issue_future(&ctx, c, &d);
                let v = CountPolls { fut, ctx: &ctx, op: c }.await;
                check_value(&ctx, c, v, "nested await");
            }
            _ => issue_simple(&ctx, c, &d),
        }
    }.boxed()
}

struct CountPolls<'a> { fut: ResFut<'a>, ctx: &'a RunCtx, op: OpId }
impl<'a> Future for CountPolls<'a> {
    type Output = Result<u64, Canceled>;
    fn poll(mut self: Pin<&mut Self>, cx: &mut Context<'_>) -> Poll<Self::Output> {
        let _ = self.ctx.recs[self.op].polled_at.compare_exchange(0, clock(), ORD, ORD);
        let r = self.fut.as_mut().poll(cx);
        if r.is_pending() { self.ctx.recs[self.op].wait_polls.fetch_add(1, ORD); }
        r
    }
}

fn sync_wait(ctx: &Arc<RunCtx>, op: OpId, d: &Obj) {
    let rec = &ctx.recs[op];
    let def = &ctx.prog.ops[op];
    rec.call_tid.store(tid_hash(), ORD);
    rec.accepted.store(true, ORD);
    let c2 = Arc::clone(ctx);
    rec.inv.store(clock(), ORD);
    let sf = { let _b = ctx.blocked(op, PH_CALL); match def.kind {
        #[cfg(feature = "hooks")]
        Kind::FutDesync if via_scheduler(ctx, op) => {
            rec.via_raw.store(true, ORD);
            let (q, ptr) = raw_parts(d);
            desync::scheduler::future_desync(&q, move || { let ptr = ptr; future_body(c2, op, unsafe { &mut *ptr.0 }) })
        }
        Kind::FutDesync => d.future_desync(move |p| future_body(c2, op, p)),
        other => panic!("harness bug: sync_wait on {:?}", other),
    } };
    rec.ret.store(clock(), ORD);
    ctx.note_for_firer();
    let v = { let _b = ctx.blocked(op, PH_SYNCWAIT); sf.sync() };
    check_value(ctx, op, v, "future.sync()");
}

// ---------------------------------------------------------------------------------------------
// Caller threads

/// `_keep`: a future_sync future borrows its Desync; the futures of future_desync / after do not, and their owner may go away first
pub struct Held { fut: Option<ResFut<'static>>, _keep: Option<Arc<Obj>> }

pub struct ThreadLocalState {
    held:       std::collections::HashMap<OpId, Held>,
    pub mortal: Option<Arc<Obj>>,
    pub streams: std::collections::HashMap<usize, desync::PipeStream<u64>>,
}

fn obj_for(ctx: &RunCtx, tls: &ThreadLocalState, obj: usize) -> Option<Arc<Obj>> {
    if ctx.prog.mortal == Some(obj) { tls.mortal.clone() } else { ctx.obj(obj) }
}

pub fn run_thread(ctx: &Arc<RunCtx>, acts: Vec<TAct>, mortal: Option<Arc<Obj>>) {
    let mut tls = ThreadLocalState { held: Default::default(), mortal, streams: Default::default() };
    for act in acts {
        if ctx.sink.has_viol.load(Ordering::Relaxed) && false { break; }
        match act {
            TAct::Op(op) => {
                let def = &ctx.prog.ops[op];
                let d = match obj_for(ctx, &tls, def.obj) { Some(d) => d, None => continue };
                match (def.kind, def.disp) {
                    (Kind::Suspend, _) => do_suspend(ctx, op, &d),
                    (Kind::FutDesync | Kind::After | Kind::FutSync, Disp::Await) => { let fut = issue_future(ctx, op, &d); await_blocking(ctx, op, fut); }
                    (Kind::FutDesync, Disp::SyncWait) => sync_wait(ctx, op, &d),
                    (Kind::FutDesync | Kind::After | Kind::FutSync, Disp::Hold) => {
                        let fut = issue_future(ctx, op, &d);
                        // Safe: `_keep` owns the object the future borrows, and the future is always dropped first (field order + explicit take)
                        let fut: ResFut<'static> = unsafe { std::mem::transmute::<ResFut<'_>, ResFut<'static>>(fut) };
                        tls.held.insert(op, Held { fut: Some(fut), _keep: if def.kind == Kind::FutSync { Some(d) } else { None } });
                    }
                    _ => issue_simple(ctx, op, &d),
                }
            }
            TAct::Join(op) => {
                if let Some(mut h) = tls.held.remove(&op) {
                    let fut = h.fut.take().unwrap();
                    await_blocking(ctx, op, fut);
                }
            }
            TAct::DropHeld(op) => {
                if let Some(mut h) = tls.held.remove(&op) {
                    let fut = h.fut.take();
                    { let _b = ctx.blocked(op, PH_DROPFUT); std::mem::drop(fut); }
                    ctx.recs[op].dropped_at.store(clock(), ORD);
                }
            }
            TAct::Resume(op, use_it) => do_resume(ctx, op, use_it),
            TAct::HandResumer(_op) => { /* the resumer already lives in ctx.resumers; the firer picks it up */ }
            TAct::ReleaseMortal => {
                if let Some(owner) = tls.mortal.take() { drop_owner(ctx, NO_OP, owner); }
            }
            TAct::PanicRelease => {
                if let Some(owner) = tls.mortal.take() {
                    // the owner goes away while this thread is unwinding: Desync::drop then takes its no-panic path
                    let _ = std::panic::catch_unwind(std::panic::AssertUnwindSafe(|| { let _b = ctx.blocked(NO_OP, PH_DROPOBJ); let _owner = owner; panic!("vh-expected-panic (drop during unwinding)") }));
                }
            }
            TAct::PipeCreate(p) => crate::pipes::create(ctx, &mut tls, p),
            TAct::Consume(p, n) => crate::pipes::consume(ctx, &mut tls, p, n),
            TAct::SetDepth(p, d) => { if let Some(s) = tls.streams.get_mut(&p) { ctx.pipes[p].cur_depth.store(d as u32, ORD); s.set_backpressure_depth(d); } }
            TAct::StashStream(p) => { if let Some(s) = tls.streams.remove(&p) { ctx.stream_stash.lock().unwrap().insert(p, s); } }
            TAct::DropStream(p) => { crate::pipes::drop_stream(ctx, &mut tls, p); ctx.note_for_firer(); }
            TAct::Push(p) => crate::pipes::push_item(ctx, p),
            TAct::Attempt(kind, obj) => attempt(ctx, kind, obj),
            TAct::FireStashedWakers => { let ws: Vec<Waker> = ctx.stashed_wakers.lock().unwrap().clone(); for w in ws { w.wake_by_ref(); } }
            TAct::Checkpoint => { if let Some(h) = ctx.prog.checkpoint_hold { let _b = ctx.blocked(NO_OP, PH_HOLD); ctx.progress(); ctx.holds[h].wait(); } }
            TAct::WaitStart(op) => {
                let _b = ctx.blocked(op, PH_FIREWAIT);
                // (a future_sync operation whose future was dropped before its slot came never starts)
                let cancellable = ctx.prog.ops[op].kind == Kind::FutSync;
                while ctx.recs[op].start.load(ORD) == 0 && !(cancellable && ctx.recs[op].dropped_at.load(ORD) != 0) { thread::park(); }
            }
            TAct::WaitInv(op) => {
                let _b = ctx.blocked(op, PH_FIREWAIT);
                while ctx.recs[op].inv.load(ORD) == 0 { thread::park(); }
                pause(ctx);
            }
            TAct::WaitResolved(op) => {
                let _b = ctx.blocked(op, PH_FIREWAIT);
                while ctx.recs[op].resolve.load(ORD) == 0 { thread::park(); }
            }
            TAct::WaitRet(op) => {
                let _b = ctx.blocked(op, PH_FIREWAIT);
                while ctx.recs[op].ret.load(ORD) == 0 { thread::park(); }
            }
            TAct::Stash(op) => { if let Some(h) = tls.held.remove(&op) { ctx.stash.lock().unwrap().insert(op, h); } }
            TAct::AttemptJoin(op) => {
                let stashed = ctx.stash.lock().unwrap().remove(&op);
                if let Some(mut h) = stashed.or_else(|| tls.held.remove(&op)) {
                    let fut = h.fut.take().unwrap();
                    let obj = ctx.prog.ops[op].obj;
                    let r = std::panic::catch_unwind(std::panic::AssertUnwindSafe(|| { let _b = ctx.blocked(op, PH_ATTEMPT); let mut fut = fut; block_on_with(fut.as_mut(), |_| {}) }));
                    attempt_result(ctx, 12, obj, r.is_err(), false);
                }
            }
        }
    }
    // anything still held is dropped now (futures first)
    for (op, mut h) in tls.held.drain() {
        let fut = h.fut.take();
        { let _b = ctx.blocked(op, PH_DROPFUT); std::mem::drop(fut); }
        ctx.recs[op].dropped_at.store(clock(), ORD);
    }
    let leftover: Vec<usize> = tls.streams.keys().cloned().collect();
    for p in leftover { crate::pipes::drop_stream(ctx, &mut tls, p); }
    if let Some(owner) = tls.mortal.take() { drop_owner(ctx, NO_OP, owner); }
}

/// (C15) A scheduling attempt on a panicked object: anything but a panic is a violation
fn attempt(ctx: &Arc<RunCtx>, kind: u8, obj: usize) {
    use std::panic::{catch_unwind, AssertUnwindSafe};
    let d = match ctx.obj(obj) { Some(d) => d, None => return };
    let ran = Arc::new(AtomicBool::new(false));
    let r2 = Arc::clone(&ran);
    let r = catch_unwind(AssertUnwindSafe(|| {
        let _b = ctx.blocked(NO_OP, PH_ATTEMPT);
        match kind {
            0 => d.desync(move |_| { r2.store(true, Ordering::SeqCst); }),
            1 => d.sync(|_| { r2.store(true, Ordering::SeqCst); }),
            2 => { let _ = d.try_sync(|_| { r2.store(true, Ordering::SeqCst); }); }
            3 => { d.future_desync(move |_| async move { r2.store(true, Ordering::SeqCst); }.boxed()).detach(); }
            4 => { let f = d.after(futures::future::ready(()), move |_, _| { r2.store(true, Ordering::SeqCst); }); std::mem::drop(f); }
            5 => { let f = d.future_sync(move |_| async move { r2.store(true, Ordering::SeqCst); }.boxed()); let mut f = Box::pin(f); let _ = block_on_with(f.as_mut(), |_| {}); }
            // the scheduler-level entry points on the object's queue (separate code from the methods of Desync)
            #[cfg(feature = "hooks")]
            6 => { let f = desync::scheduler::scheduler().after(d.verif_queue(), futures::future::ready(()), move |_| { r2.store(true, Ordering::SeqCst); }); std::mem::drop(f); }
            #[cfg(feature = "hooks")]
            7 => { let f = desync::scheduler::scheduler().suspend(d.verif_queue()); std::mem::drop(f); }
            #[cfg(feature = "hooks")]
            8 => { desync::scheduler::desync(d.verif_queue(), move || { r2.store(true, Ordering::SeqCst); }); }
            #[cfg(feature = "hooks")]
            9 => { let f = desync::scheduler::future_sync(d.verif_queue(), move || async move { r2.store(true, Ordering::SeqCst); }); let mut f = Box::pin(f); let _ = block_on_with(f.as_mut(), |_| {}); }
            // a pipe into the panicked object: creating it schedules the first read on the object
            10 => { let input = futures::stream::iter(vec![1u64, 2, 3]); desync::pipe_in(Arc::clone(&d), input, move |_, _| { r2.store(true, Ordering::SeqCst); futures::future::ready(()).boxed() }); }
            _ => { let input = futures::stream::iter(vec![1u64, 2, 3]); let out = desync::pipe(Arc::clone(&d), input, move |_, v| { r2.store(true, Ordering::SeqCst); futures::future::ready(v).boxed() }); std::mem::drop(out); }
        }
    }));
    attempt_result(ctx, kind, obj, r.is_err(), ran.load(Ordering::SeqCst));
}

pub const ATTEMPT_NAMES: [&str; 13] = ["desync", "sync", "try_sync", "future_desync", "after", "future_sync", "scheduler_after", "suspend", "scheduler_desync", "scheduler_future_sync",
                               "pipe_in", "pipe", "await_of_earlier_future"];

fn attempt_result(ctx: &RunCtx, kind: u8, obj: usize, failed_loudly: bool, ran: bool) {
    use self::ATTEMPT_NAMES as NAMES;
    ctx.attempts.lock().unwrap().push((kind, obj, failed_loudly));
    if !failed_loudly || ran {
        let how = panic_context(ctx, obj);
        ctx.report("C15", "scheduling_on_panicked_object_did_not_fail_loudly", format!("quiet_attempt:{}:{}", NAMES[kind as usize], how),
            format!("object {} has panicked ({}); a later {} on it {} instead of panicking", obj, how, NAMES[kind as usize], if ran { "ran its closure" } else { "returned normally" }));
    }
}

/// Where the panicking body of an object ran: kind of the op and thread class
pub fn panic_context(ctx: &RunCtx, obj: usize) -> String {
    for (i, d) in ctx.prog.ops.iter().enumerate() {
        if d.obj == obj && ctx.recs[i].outcome.load(ORD) == 5 {
            let r = &ctx.recs[i];
            let cls = match r.runner.load(ORD) { 1 => "pool_thread", 2 => if r.run_tid.load(ORD) == r.call_tid.load(ORD) { "calling_thread" } else { "other_caller_thread" }, _ => "other" };
            return format!("{}_panicked_on_{}", d.kind.name(), cls);
        }
    }
    "no_panic_recorded".into()
}

fn do_suspend(ctx: &Arc<RunCtx>, op: OpId, d: &Obj) {
    let rec = &ctx.recs[op];
    let def = &ctx.prog.ops[op];
    rec.call_tid.store(tid_hash(), ORD);
    rec.accepted.store(true, ORD);
    rec.inv.store(clock(), ORD);
    #[cfg(not(feature = "hooks"))]
    let fut = { let _ = d; let q = desync::scheduler::queue(); let _b = ctx.blocked(op, PH_CALL); desync::scheduler::scheduler().suspend(&q) };
    #[cfg(feature = "hooks")]
    let fut = { let _b = ctx.blocked(op, PH_CALL); desync::scheduler::scheduler().suspend(d.verif_queue()) };
    rec.ret.store(clock(), ORD);
    ctx.note_for_firer();
    match def.disp {
        Disp::DropNow => { std::mem::drop(fut); rec.dropped_at.store(clock(), ORD); }
        _ => {
            let mut fut = Box::pin(fut);
            let r = { let _b = ctx.blocked(op, PH_AWAIT); block_on_with(fut.as_mut(), |_| { rec.wait_polls.fetch_add(1, ORD); }) };
            // everything scheduled before the suspend request must be complete now; stamp first, the oracle compares afterwards
            rec.resolve.store(clock(), ORD);
            match r {
                Ok(resumer) => { rec.outcome.store(1, ORD); *ctx.resumers[op].lock().unwrap() = Some(resumer); ctx.note_for_firer(); }
                Err(_) => { rec.outcome.store(4, ORD); ctx.report("C13", "suspend_future_canceled", "suspend_canceled".into(), format!("suspend op {} resolved to Err(Canceled)", op)); }
            }
        }
    }
}

pub fn do_resume(ctx: &RunCtx, op: OpId, use_it: bool) {
    let resumer = ctx.resumers[op].lock().unwrap().take();
    if let Some(resumer) = resumer {
        ctx.resume_stamp[op].store(clock(), ORD);
        let _b = ctx.blocked(op, PH_RESUME);
        if use_it { resumer.resume(); } else { std::mem::drop(resumer); }
    }
}

// ---------------------------------------------------------------------------------------------
// The firer thread: external events

#[cfg(not(feature = "hooks"))]
pub fn queue_state_class(_d: &Obj) -> usize { 8 }

#[cfg(feature = "hooks")]
pub fn queue_state_class(d: &Obj) -> usize {
    let s = format!("{:?}", d.verif_queue());
    for (i, name) in WAKE_STATES.iter().enumerate().rev() {
        if i < 8 && s.contains(&format!("State: {}", name)) { return i; }
    }
    8
}

pub fn run_firer(ctx: &Arc<RunCtx>, pusher: bool) {
    let mut rng = Rng::new(ctx.prog.run_seed ^ if pusher { 0x9055 } else { 0xf17e });
    let mut acts: std::collections::VecDeque<FAct> = if pusher { ctx.prog.pusher.iter().cloned().collect() } else { ctx.prog.fire.iter().cloned().collect() };
    let mut deferred = 0usize;
    while let Some(act) = acts.pop_front() {
        // a resume whose resumer has not been handed over yet must not hold up the events behind it (the suspend request may
        // be queued behind an operation that waits for one of those events): come back to it later
        if let FAct::Resume(op, _) = act {
            let ready = ctx.resumers[op].lock().unwrap().is_some() || ctx.recs[op].outcome.load(ORD) == 4 || ctx.recs[op].dropped_at.load(ORD) != 0;
            if !ready && !acts.is_empty() {
                acts.push_back(act);
                deferred += 1;
                if deferred > acts.len() {
                    // a whole round of resumes, none of them ready: sleep until a resumer is handed over
                    let _b = ctx.blocked(op, PH_FIREWAIT);
                    let any_ready = |acts: &std::collections::VecDeque<FAct>| acts.iter().any(|a| match a {
                        FAct::Resume(o, _) => ctx.resumers[*o].lock().unwrap().is_some() || ctx.recs[*o].outcome.load(ORD) == 4 || ctx.recs[*o].dropped_at.load(ORD) != 0,
                        _ => true });
                    while !any_ready(&acts) { thread::park(); }
                    deferred = 0;
                }
                continue;
            }
        }
        deferred = 0;
        // seeded pause: none, yield, short spin, or a sleep (so that wake-ups land before, during and long after the suspension)
        if ctx.native {
            match rng.below(10) {
                0..=2 => {}
                3..=4 => thread::yield_now(),
                5..=7 => { let us = rng.range(1, 60); let t = std::time::Instant::now(); while (t.elapsed().as_micros() as u64) < us { std::hint::spin_loop(); } }
                _ => thread::sleep(std::time::Duration::from_micros(rng.range(50, 400))),
            }
        } else if rng.chance(1, 2) { thread::yield_now(); }
        match act {
            FAct::Fire(g) => {
                let gate = &ctx.gates[g];
                // classify where this wake lands: state of the waiting op's queue just before the wake
                let waiters: Vec<OpId> = gate.waiters.lock().unwrap().clone();
                for w in waiters {
                    let def = &ctx.prog.ops[w];
                    if ctx.recs[w].end.load(ORD) != 0 { continue; }
                    if ctx.prog.mortal == Some(def.obj) { continue; }
                    if let Some(d) = ctx.obj(def.obj) {
                        let cls = queue_state_class(&d);
                        let runner = ctx.recs[w].runner.load(ORD).min(5) as usize;
                        ctx.wake_classes[cls * 6 + runner].fetch_add(1, ORD);
                    }
                }
                gate.fire(&mut rng);
            }
            FAct::WaitRet(op) => {
                let _b = ctx.blocked(op, PH_FIREWAIT);
                while ctx.recs[op].ret.load(ORD) == 0 { thread::park(); }
            }
            FAct::WaitStart(op) => {
                let _b = ctx.blocked(op, PH_FIREWAIT);
                // (a future_sync operation whose future was dropped before its slot came never starts)
                let cancellable = ctx.prog.ops[op].kind == Kind::FutSync;
                while ctx.recs[op].start.load(ORD) == 0 && !(cancellable && ctx.recs[op].dropped_at.load(ORD) != 0) { thread::park(); }
            }
            FAct::Resume(op, use_it) => {
                {
                    let _b = ctx.blocked(op, PH_FIREWAIT);
                    // wait until the suspend future has resolved and the resumer was handed over (or the suspend failed)
                    loop {
                        if ctx.resumers[op].lock().unwrap().is_some() { break; }
                        let o = ctx.recs[op].outcome.load(ORD);
                        if o == 4 || ctx.recs[op].dropped_at.load(ORD) != 0 { break; }
                        thread::park();
                    }
                }
                do_resume(ctx, op, use_it);
            }
            FAct::Item(p) => crate::pipes::push_item(ctx, p),
            FAct::Close(p) => crate::pipes::close_input(ctx, p),
            FAct::WaitConsumerWaiting(p) => {
                let _b = ctx.blocked(crate::pipes::PIPE_BASE + p, PH_FIREWAIT);
                // thread 0 creates the pipe and reads its output
                while !ctx.pipes[p].consumer_waiting.load(ORD) && !ctx.pipes[p].out_ended.load(ORD) && ctx.pipes[p].stream_dropped.load(ORD) == 0 && ctx.done_mask.load(Ordering::SeqCst) & 1 == 0 { thread::park(); }
            }
            FAct::WaitThread0Done => {
                let _b = ctx.blocked(NO_OP, PH_FIREWAIT);
                while ctx.done_mask.load(Ordering::SeqCst) & 1 == 0 { thread::park(); }
            }
            FAct::WaitDropped(p) => {
                let _b = ctx.blocked(crate::pipes::PIPE_BASE + p, PH_FIREWAIT);
                while ctx.pipes[p].stream_dropped.load(ORD) == 0 && ctx.threads_done.load(Ordering::SeqCst) < ctx.prog.threads.len() { thread::park(); }
            }
        }
    }
}

// ---------------------------------------------------------------------------------------------
// Building a run context

pub struct Handles {
    pub ctx:        Arc<RunCtx>,
    pub objects:    Vec<Option<Arc<Obj>>>,
}

fn prog_has_waits(prog: &Program) -> bool {
    let t = |a: &TAct| matches!(a, TAct::WaitStart(_) | TAct::WaitRet(_) | TAct::WaitInv(_) | TAct::WaitResolved(_) | TAct::HandResumer(_));
    let f = |a: &FAct| matches!(a, FAct::WaitRet(_) | FAct::WaitStart(_) | FAct::Resume(..) | FAct::WaitDropped(_) | FAct::WaitConsumerWaiting(_) | FAct::WaitThread0Done);
    prog.threads.iter().flatten().any(t) || prog.phases.iter().flat_map(|p| p.threads.iter().flatten()).any(t) || prog.fire.iter().any(f) || prog.pusher.iter().any(f)
}

pub fn build(prog: Program, native: bool) -> Handles {
    let sink = Arc::new(Sink { viol: Mutex::new(vec![]), has_viol: AtomicBool::new(false) });
    let mut objs = vec![]; let mut weak = vec![]; let mut objects = vec![];
    for i in 0..prog.n_obj {
        let st = Arc::new(ObjState { idx: i, occ: AtomicI32::new(0), inside: AtomicUsize::new(0), dead: AtomicBool::new(false), drops: AtomicU32::new(0), drop_stamp: AtomicU64::new(0) });
        let d = Arc::new(Desync::new(Payload { heap: Box::new(0), a: 0, b: 0, last: 0, canary: CANARY, st: Arc::clone(&st), sink: Arc::clone(&sink) }));
        // the mortal object is not reachable through the context: only explicit owners keep it alive
        weak.push(Mutex::new(if prog.mortal == Some(i) { Weak::new() } else { Arc::downgrade(&d) }));
        objs.push(st);
        objects.push(Some(d));
    }
    let gates = (0..prog.n_gates).map(|i| Arc::new(Gate::new(i, prog.stale_wakes))).collect();
    let holds = (0..prog.n_holds).map(|_| Arc::new(Hold::new())).collect();
    let pipes = prog.pipes.iter().map(|pd| { let (tx, rx) = if pd.mpsc { let (tx, rx) = futures::channel::mpsc::unbounded(); (Some(tx), Some(rx)) } else { (None, None) }; PipeState {
        input: Mutex::new(InputCore { q: Default::default(), closed: false, waker: None, polls: 0, pending_polls: 0 }), input_drops: AtomicU32::new(0), closure_drops: AtomicU32::new(0),
        created: AtomicU64::new(0), cur_depth: AtomicU32::new(pd.depth as u32), stream_dropped: AtomicU64::new(0), outputs: Mutex::new(vec![]), out_ended: AtomicBool::new(false), consumer_parks: AtomicU32::new(0), consumer_waiting: AtomicBool::new(false),
        pushed: AtomicUsize::new(0), closed_stamp: AtomicU64::new(0), mpsc_tx: Mutex::new(tx), mpsc_rx: Mutex::new(rx), push_lock: Mutex::new(()), drop_class: AtomicU32::new(0),
    } }).collect();
    let n = prog.ops.len();
    let ctx = Arc::new(RunCtx {
        recs: (0..n).map(|_| OpRec::new()).collect(),
        objs, weak, gates, holds, pipes, sink,
        main: thread::current(), firer: OnceLock::new(), pusher: OnceLock::new(),
        blocking: (0..48).map(|_| AtomicU64::new(0)).collect(),
        threads_done: AtomicUsize::new(0), done_mask: AtomicU64::new(0),
        mortal_job_owner: Mutex::new(None),
        resumers: (0..n).map(|_| Mutex::new(None)).collect(),
        resume_stamp: (0..n).map(|_| AtomicU64::new(0)).collect(),
        wake_classes: (0..9 * 6).map(|_| AtomicU32::new(0)).collect(),
        native, expected_panic_seen: AtomicU32::new(0), attempts: Mutex::new(vec![]), dropped_unwinding: AtomicU32::new(0), stream_stash: Mutex::new(Default::default()), stash: Mutex::new(Default::default()), waiters: Mutex::new(vec![]), stashed_wakers: Mutex::new(vec![]), has_waiters: AtomicBool::new(prog_has_waits(&prog)),
        prog,
    });
    Handles { ctx, objects }
}
