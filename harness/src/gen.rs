//! Program generators: one general mixed generator (parameterised per profile) and a few templates that aim at one window each.
//!
//! Legitimacy rules (DESIGN.md section 0) are enforced by construction here and asserted again by `validate`.

use crate::model::*;
use crate::rt::Rng;

#[derive(Clone)]
pub struct Cfg {
    pub pools:      Vec<usize>,
    pub max_obj:    usize,
    pub max_threads: usize,
    pub max_ops:    usize,
    /// weights: desync, sync, try_sync, future_desync, after, future_sync, suspend
    pub w:          [u32; 7],
    pub p_nest:     u64,    // percent
    pub p_gate:     u64,
    pub p_yield:    u64,
    pub p_mortal:   u64,
    pub p_stale:    u64,
    pub p_prefire:  u64,
    /// percent of bodies that keep a waker clone behind / fire the kept wakers while they execute (late wakes from an event source)
    pub p_stash:    u64,
}

impl Cfg {
    pub fn base() -> Cfg {
        Cfg { pools: vec![0, 1, 1, 2, 2, 3], max_obj: 3, max_threads: 4, max_ops: 6, w: [6, 5, 3, 6, 2, 4, 1], p_nest: 15, p_gate: 35, p_yield: 25, p_mortal: 20, p_stale: 10, p_prefire: 15, p_stash: 6 }
    }
}

pub fn cfg_for(profile: &str, miri: bool) -> Cfg {
    let mut c = Cfg::base();
    match profile {
        "C01" => { c.w = [6, 5, 3, 7, 2, 6, 1]; c.p_gate = 40; c.p_yield = 35; }
        "C02" => { c.w = [6, 6, 2, 6, 3, 5, 1]; c.p_nest = 25; }
        "C03" => { c.w = [10, 2, 2, 8, 2, 1, 0]; c.pools = vec![1, 1, 2, 2, 3]; c.p_nest = 30; c.p_mortal = 5; }
        "C04" => { c.w = [5, 12, 1, 5, 1, 2, 0]; c.pools = vec![0, 0, 1, 1, 2, 3]; c.max_obj = 2; }
        "C05" => { c.p_mortal = 100; c.w = [8, 3, 1, 8, 2, 2, 0]; }
        "C06" => { c.w = [4, 5, 1, 10, 4, 4, 0]; c.p_gate = 70; c.p_yield = 50; c.p_stale = 25; c.max_obj = 2; c.p_stash = 15; }
        "C07" => { c.w = [4, 3, 1, 14, 5, 1, 0]; c.p_gate = 45; c.max_obj = 2; }
        "C08" => { c.w = [4, 3, 1, 5, 1, 14, 0]; c.p_gate = 50; c.p_yield = 40; c.max_obj = 2; }
        "C09" => { c.w = [6, 6, 12, 5, 1, 2, 0]; c.max_obj = 2; c.p_mortal = 5; c.p_stash = 25; }
        "C13" => { c.w = [6, 5, 2, 5, 1, 2, 7]; c.max_obj = 2; c.p_mortal = 5; }
        "C14" => { c.w = [5, 7, 3, 6, 2, 7, 1]; c.p_mortal = 50; }
        "C17" => { c.w = [10, 3, 1, 6, 1, 1, 0]; c.pools = vec![0, 1, 2, 3]; c.max_obj = 3; c.p_mortal = 0; }
        _ => {}
    }
    if !cfg!(feature = "hooks") { c.w[6] = 0; }   // suspend needs the queue accessor of the hooks
    if miri { c.max_threads = 3; c.max_ops = 3; c.max_obj = c.max_obj.min(2); c.p_stale = c.p_stale.min(10); }
    c
}

struct Gen<'a> { rng: &'a mut Rng, cfg: &'a Cfg, prog: Program, pool0_shared: bool, allow_polldrop: bool, nb_only_now: bool }

impl<'a> Gen<'a> {
    fn immortal_objs(&self) -> Vec<usize> { (0..self.prog.n_obj).filter(|o| Some(*o) != self.prog.mortal).collect() }

    /// A body for a closure (is_future = false) or future operation on `obj`
    fn body(&mut self, obj: usize, is_future: bool, depth: usize, parent: Option<OpId>) -> Vec<Step> {
        let mut steps = vec![Step::Touch];
        if self.rng.below(100) < self.cfg.p_stash {
            // an event source that keeps a waker of an operation after that operation is over, and calls it at some later time
            if is_future && self.rng.chance(1, 2) { steps.push(Step::StashWaker); } else { steps.push(Step::FireStashed); steps.push(Step::Pause); }
        }
        let extra = self.rng.below(3);
        for _ in 0..extra {
            let r = self.rng.below(100);
            if is_future && r < self.cfg.p_gate {
                let g = self.prog.new_gate();
                steps.push(Step::Gate(g));
            } else if is_future && r < self.cfg.p_gate + self.cfg.p_yield {
                // mostly a proper yield; sometimes a wake that lands during the poll while the body simply carries on
                if self.rng.chance(1, 4) { steps.push(Step::WakeOnly); steps.push(Step::Pause); } else { steps.push(Step::Yield); }
            } else if depth == 0 && self.rng.below(100) < self.cfg.p_nest {
                if let Some(c) = self.nested(obj, is_future, parent) { steps.push(Step::Nest(c)); }
            }
            steps.push(Step::Touch);
        }
        steps
    }

    /// A nested operation scheduled from inside a body running on `obj`. Blocking forms only target higher-numbered immortal objects.
    fn nested(&mut self, obj: usize, in_future: bool, _parent: Option<OpId>) -> Option<OpId> {
        let imm = self.immortal_objs();
        if imm.is_empty() { return None; }
        let higher: Vec<usize> = imm.iter().cloned().filter(|o| *o > obj).collect();
        // Blocking forms tie up the thread that runs the body (possibly a pool thread). A nested `sync` gets through by stealing the
        // queue, but not if that queue was left half-drained by a future that was polled and then dropped, so programs contain either
        // nested blocking calls or poll-then-drop dispositions, never both. Awaiting with block_on inside a closure has no way to
        // steal at all (it relies on a free pool thread), so nested awaits only appear inside future bodies, where they do not block.
        // A blocked pool thread is lost to the pool for that time; at most one job per object can be blocked, so the pool must be
        // at least as large as the number of objects for a free thread to remain (cf. the proviso of C10)
        let blocking_ok = !higher.is_empty() && !self.pool0_shared && !self.allow_polldrop && !self.nb_only_now && self.prog.pool >= self.prog.n_obj;
        let choice = if !blocking_ok { self.rng.below(3) } else if in_future { self.rng.below(6) } else { self.rng.below(4) };
        let (kind, disp, target) = match choice {
            0 => (Kind::Desync, Disp::None, *self.rng.pick(&imm)),
            1 => (Kind::FutDesync, Disp::Detach, *self.rng.pick(&imm)),
            2 => (Kind::TrySync, Disp::None, *self.rng.pick(&imm)),
            3 => (Kind::Sync, Disp::None, *self.rng.pick(&higher)),
            4 => (Kind::FutDesync, Disp::Await, *self.rng.pick(&higher)),
            _ => (Kind::FutSync, Disp::Await, *self.rng.pick(&higher)),
        };
        let is_fut = matches!(kind, Kind::FutDesync | Kind::FutSync);
        // nested bodies do not nest further and (when awaited/blocking) contain no gates of their own: they may yield
        let mut body = vec![Step::Touch];
        if is_fut && self.rng.below(100) < self.cfg.p_yield { body.push(Step::Yield); body.push(Step::Touch); }
        if is_fut && disp == Disp::Detach && self.rng.below(100) < self.cfg.p_gate { let g = self.prog.new_gate(); body.push(Step::Gate(g)); body.push(Step::Touch); }
        let id = self.prog.add_op(target, kind, disp, body);
        self.prog.ops[id].parent = Some(usize::MAX);
        Some(id)
    }
}

/// The general generator
pub fn mixed(rng: &mut Rng, profile: &'static str, cfg: &Cfg, run_seed: u64) -> Program {
    let mut prog = Program::new(run_seed, profile, "mixed");
    prog.pool = *rng.pick(&cfg.pools);
    prog.pool_mode = *rng.pick(&[PoolMode::Warm, PoolMode::Warm, PoolMode::Warm, PoolMode::Fresh, PoolMode::Fresh, PoolMode::Eager]);
    prog.n_obj = rng.range(1, cfg.max_obj as u64) as usize;
    let n_threads = rng.range(1, cfg.max_threads as u64) as usize;
    prog.stale_wakes = rng.below(100) < cfg.p_stale;
    if rng.below(100) < cfg.p_mortal { prog.mortal = Some(rng.below(prog.n_obj as u64) as usize); }
    let pool0 = prog.pool == 0;
    let pool0_shared = pool0 && n_threads > 1;
    let allow_polldrop = rng.chance(1, 2);
    let mut g = Gen { rng, cfg, prog, pool0_shared, allow_polldrop, nb_only_now: false };

    for _t in 0..n_threads {
        let n_ops = g.rng.range(1, cfg.max_ops as u64) as usize;
        let mut acts: Vec<TAct> = vec![];
        let mut nb_window: Vec<bool> = vec![];          // act k was generated while only non-blocking acts were allowed
        let mut held_fs: Vec<OpId> = vec![];            // un-joined future_sync futures
        let mut held_fd: Vec<OpId> = vec![];            // un-joined future_desync/after futures
        let mut resumers: Vec<OpId> = vec![];           // resumers held by this thread
        for _k in 0..n_ops {
            let nb_only = !held_fs.is_empty() || !resumers.is_empty();
            if nb_only && g.rng.chance(2, 5) {
                // close one of the windows
                if !resumers.is_empty() && (held_fs.is_empty() || g.rng.chance(1, 2)) {
                    let s = resumers.remove(0);
                    let use_it = g.rng.chance(2, 3);
                    if !pool0 && g.rng.chance(1, 3) { acts.push(TAct::HandResumer(s)); g.prog.fire.push(FAct::Resume(s, use_it)); } else { acts.push(TAct::Resume(s, use_it)); }
                    nb_window.push(true);
                } else if resumers.is_empty() {
                    // joining blocks: only allowed when nothing else is held open
                    let f = held_fs.remove(0);
                    if held_fs.is_empty() {
                        acts.push(if g.rng.chance(3, 4) { TAct::Join(f) } else { TAct::DropHeld(f) });
                    } else { acts.push(TAct::DropHeld(f)); }
                    nb_window.push(true);
                }
                continue;
            }
            if !held_fd.is_empty() && !nb_only && g.rng.chance(1, 4) {
                let f = held_fd.remove(g.rng.below(held_fd.len() as u64) as usize);
                acts.push(if g.rng.chance(4, 5) { TAct::Join(f) } else { TAct::DropHeld(f) });
                nb_window.push(false);
                continue;
            }
            let obj = g.rng.below(g.prog.n_obj as u64) as usize;
            let mut w = cfg.w;
            if nb_only { w[1] = 0; w[6] = 0; }
            if pool0_shared { w[5] = 0; w[6] = 0; }
            let k = g.rng.weighted(&w);
            let (kind, is_future) = match k { 0 => (Kind::Desync, false), 1 => (Kind::Sync, false), 2 => (Kind::TrySync, false), 3 => (Kind::FutDesync, true),
                                              4 => (Kind::After, false), 5 => (Kind::FutSync, true), _ => (Kind::Suspend, false) };
            // dispositions
            let disp = match kind {
                Kind::FutDesync | Kind::After => {
                    let mut opts: Vec<Disp> = vec![Disp::Detach, Disp::Detach, Disp::DropNow, Disp::Hold];
                    if !nb_only && !pool0_shared { opts.push(Disp::Await); opts.push(Disp::Await); }
                    if !nb_only && kind == Kind::FutDesync { opts.push(Disp::SyncWait); }
                    if !pool0 && !nb_only && allow_polldrop { opts.push(Disp::PollDrop(g.rng.range(1, 3) as u8)); }
                    if pool0_shared { opts.retain(|d| *d != Disp::Hold); }
                    *g.rng.pick(&opts)
                }
                Kind::FutSync => {
                    let mut opts: Vec<Disp> = vec![Disp::DropNow, Disp::Hold, Disp::Hold];
                    if !nb_only { opts.push(Disp::Await); opts.push(Disp::Await); opts.push(Disp::Await); }
                    if !pool0 && !nb_only && allow_polldrop { opts.push(Disp::PollDrop(g.rng.range(1, 4) as u8)); opts.push(Disp::PollDrop(g.rng.range(1, 4) as u8)); }
                    *g.rng.pick(&opts)
                }
                Kind::Suspend => if g.rng.chance(1, 5) { Disp::DropNow } else { Disp::Await },
                _ => Disp::None,
            };
            // while this thread holds an un-awaited future_sync future or a resumer, nothing it runs may block - including bodies that
            // may end up running on this very thread
            g.nb_only_now = nb_only;
            let mut body = if kind == Kind::Suspend { vec![] } else { g.body(obj, is_future, 0, None) };
            // some future bodies keep their state (and the borrow) after completion, until the future object is dropped
            if is_future && g.rng.chance(1, 5) { body.push(Step::Retain); }
            let id = g.prog.add_op(obj, kind, disp, body);
            if kind == Kind::After { let gate = g.prog.new_gate(); g.prog.ops[id].gate = Some(gate); }
            acts.push(TAct::Op(id));
            nb_window.push(nb_only);
            match (kind, disp) {
                (Kind::FutSync, Disp::Hold) => held_fs.push(id),
                (Kind::FutDesync | Kind::After, Disp::Hold) => held_fd.push(id),
                (Kind::Suspend, Disp::Await) => resumers.push(id),
                _ => {}
            }
        }
        // close whatever is still open: resumers first (non-blocking), then future_sync futures one by one, then the rest
        for s in resumers.drain(..) { acts.push(TAct::Resume(s, g.rng.chance(2, 3))); nb_window.push(true); }
        while !held_fs.is_empty() {
            let f = held_fs.remove(0);
            let blocking_ok = held_fs.is_empty();
            acts.push(if blocking_ok && g.rng.chance(3, 4) { TAct::Join(f) } else { TAct::DropHeld(f) });
            nb_window.push(true);
        }
        for f in held_fd.drain(..) { acts.push(if !pool0_shared && g.rng.chance(3, 4) { TAct::Join(f) } else { TAct::DropHeld(f) }); nb_window.push(false); }

        // this thread's owner of the mortal object goes away somewhere after its last use, outside any non-blocking window
        if let Some(m) = g.prog.mortal {
            // (a held future_desync / after future does not need its Desync any more: the owner may be released while the future is
            // still to be awaited or dropped, and it may be the last one)
            let last_use = acts.iter().rposition(|a| match a {
                TAct::Op(o) => g.prog.ops[*o].obj == m,
                TAct::Join(o) | TAct::DropHeld(o) => g.prog.ops[*o].obj == m && g.prog.ops[*o].kind == Kind::FutSync,
                _ => false });
            let lo = last_use.map(|i| i + 1).unwrap_or(0);
            let mut spots: Vec<usize> = (lo..=acts.len()).filter(|i| *i == acts.len() || !nb_window[*i]).collect();
            if spots.is_empty() { spots.push(acts.len()); }
            let at = *g.rng.pick(&spots);
            acts.insert(at, TAct::ReleaseMortal);
        }
        g.prog.threads.push(acts);
    }

    let mut prog = g.prog;
    // A drop during unwinding drains the queue on the unwinding thread; the crate marks every queue that such a thread runs as
    // panicked, so this is only used when the operations of the mortal object never reach into other objects.
    if let Some(m) = prog.mortal {
        let mortal_nests = prog.ops.iter().any(|o| o.obj == m && o.body.iter().any(|s| matches!(s, Step::Nest(_))));
        if !mortal_nests && rng.chance(1, 3) {
            let t = rng.below(prog.threads.len() as u64) as usize;
            if let Some(i) = prog.threads[t].iter().position(|a| *a == TAct::ReleaseMortal) { prog.threads[t][i] = TAct::PanicRelease; }
        }
    }
    // a job of a lower-numbered immortal object may be the one that drops the last owner of the mortal object
    if let Some(m) = prog.mortal {
        if rng.chance(1, 3) && !pool0 && !allow_polldrop && prog.pool >= prog.n_obj {
            let lower: Vec<usize> = (0..m).collect();
            if !lower.is_empty() {
                let o = *rng.pick(&lower);
                let id = prog.add_op(o, Kind::Desync, Disp::None, vec![Step::Touch, Step::DropMortal]);
                let t = rng.below(prog.threads.len() as u64) as usize;
                let at = rng.below(prog.threads[t].len() as u64 + 1) as usize;
                // not inside a non-blocking window: DropMortal runs inside a job, the scheduling call itself never blocks
                prog.threads[t].insert(at, TAct::Op(id));
            }
        }
    }
    finish_firer(rng, &mut prog, cfg.p_prefire);
    prog
}

/// Every gate gets fired: some before the threads start, the rest by the firer in a seeded order, mixed with the resumes already planned
pub fn finish_firer(rng: &mut Rng, prog: &mut Program, p_prefire: u64) {
    let mut acts: Vec<FAct> = std::mem::take(&mut prog.fire);
    let waited: Vec<usize> = acts.iter().filter_map(|a| if let FAct::Fire(g) = a { Some(*g) } else { None }).collect();
    for g in 0..prog.n_gates {
        if waited.contains(&g) { continue; }
        if rng.below(100) < p_prefire { prog.prefired.push(g); } else { acts.push(FAct::Fire(g)); }
    }
    // shuffle, but keep every WaitRet/WaitStart directly in front of the act that followed it
    let mut groups: Vec<Vec<FAct>> = vec![];
    let mut i = 0;
    while i < acts.len() {
        if matches!(acts[i], FAct::WaitRet(_) | FAct::WaitStart(_)) && i + 1 < acts.len() { groups.push(vec![acts[i], acts[i + 1]]); i += 2; }
        else { groups.push(vec![acts[i]]); i += 1; }
    }
    rng.shuffle(&mut groups);
    prog.fire = groups.into_iter().flatten().collect();
}

// ---------------------------------------------------------------------------------------------
// Templates

/// C03: producers that only schedule detached work on several objects while the pool is exactly at its maximum and threads go dormant
pub fn t_dormant(rng: &mut Rng, profile: &'static str, run_seed: u64, miri: bool) -> Program {
    let mut prog = Program::new(run_seed, profile, "dormant_handshake");
    prog.pool = rng.range(1, 3) as usize;
    prog.pool_mode = *rng.pick(&[PoolMode::Warm, PoolMode::Warm, PoolMode::Eager, PoolMode::Fresh]);
    prog.n_obj = rng.range(2, 3) as usize;
    let nt = rng.range(2, if miri { 2 } else { 4 }) as usize;
    for _ in 0..nt {
        let mut acts = vec![];
        for _ in 0..rng.range(1, if miri { 3 } else { 6 }) {
            let obj = rng.below(prog.n_obj as u64) as usize;
            let id = if rng.chance(3, 4) { prog.add_op(obj, Kind::Desync, Disp::None, vec![Step::Touch]) }
                     else { let b = if rng.chance(1, 2) { vec![Step::Touch, Step::Yield, Step::Touch] } else { vec![Step::Touch] }; prog.add_op(obj, Kind::FutDesync, Disp::Detach, b) };
            if rng.chance(1, 6) {
                // work scheduled from inside the job
                let c = prog.add_op(rng.below(prog.n_obj as u64) as usize, Kind::Desync, Disp::None, vec![Step::Touch]);
                prog.ops[c].parent = Some(id);
                prog.ops[id].body.push(Step::Nest(c));
            }
            acts.push(TAct::Op(id));
        }
        prog.threads.push(acts);
    }
    finish_firer(rng, &mut prog, 0);
    prog
}

/// C04: several threads call sync on one object at once, against every queue state
pub fn t_multisync(rng: &mut Rng, profile: &'static str, run_seed: u64, miri: bool) -> Program {
    let mut prog = Program::new(run_seed, profile, "concurrent_sync");
    prog.pool = *rng.pick(&[0usize, 0, 1, 1, 2, 3]);
    prog.pool_mode = *rng.pick(&[PoolMode::Warm, PoolMode::Warm, PoolMode::Fresh]);
    prog.n_obj = rng.range(1, 2) as usize;
    let nt = rng.range(2, if miri { 3 } else { 4 }) as usize;
    let shared_pool0 = prog.pool == 0;
    for _ in 0..nt {
        let mut acts = vec![];
        for _ in 0..rng.range(1, if miri { 2 } else { 5 }) {
            let obj = rng.below(prog.n_obj as u64) as usize;
            let r = rng.below(10);
            let id = if r < 6 { prog.add_op(obj, Kind::Sync, Disp::None, vec![Step::Touch]) }
                     else if r < 8 { prog.add_op(obj, Kind::Desync, Disp::None, vec![Step::Touch]) }
                     else {
                         let mut b = vec![Step::Touch];
                         if rng.chance(1, 2) { let g = prog.new_gate(); b.push(Step::Gate(g)); } else { b.push(Step::Yield); }
                         b.push(Step::Touch);
                         let _ = shared_pool0;
                         prog.add_op(obj, Kind::FutDesync, Disp::Detach, b)
                     };
            acts.push(TAct::Op(id));
        }
        prog.threads.push(acts);
    }
    finish_firer(rng, &mut prog, 10);
    prog
}

/// C04/C10: the pool is saturated by bodies blocked on holds; with `free_detached` the free objects also carry detached work and the
/// pool must have room for it (C10), otherwise callers on free objects must get through with sync alone (C04)
pub fn t_holds(rng: &mut Rng, profile: &'static str, run_seed: u64, miri: bool, saturate: bool) -> Program {
    let mut prog = Program::new(run_seed, profile, if saturate { "pool_saturated_sync" } else { "independent_progress" });
    prog.hold_phase = true;
    let (pool, k) = if saturate { let p = rng.range(1, 2) as usize; (p, p) } else { let p = rng.range(2, 3) as usize; (p, rng.range(1, p as u64 - 1) as usize) };
    prog.pool = pool;
    prog.pool_mode = *rng.pick(&[PoolMode::Fresh, PoolMode::Warm, PoolMode::Eager]);
    let n_free = rng.range(1, if miri { 1 } else { 2 }) as usize;
    prog.n_obj = k + n_free;
    prog.held_objs = (0..k).collect();
    // one thread schedules the blocking bodies; optionally more threads sit in sync on the held objects
    let mut holder = vec![];
    for o in 0..k {
        let h = prog.new_hold();
        let id = prog.add_op(o, Kind::Desync, Disp::None, vec![Step::Touch, Step::Hold(h), Step::Touch]);
        holder.push(TAct::Op(id));
    }
    prog.threads.push(holder);
    if !miri || rng.chance(1, 2) {
        for o in 0..k {
            if rng.chance(1, 2) {
                let id = prog.add_op(o, Kind::Sync, Disp::None, vec![Step::Touch]);
                prog.threads.push(vec![TAct::Op(id)]);
            }
        }
    }
    let nt = rng.range(1, if miri { 2 } else { 3 }) as usize;
    for _ in 0..nt {
        let mut acts = vec![];
        let mut touched = vec![];
        for _ in 0..rng.range(1, if miri { 2 } else { 4 }) {
            let obj = k + rng.below(n_free as u64) as usize;
            let r = rng.below(if saturate { 10 } else { 12 });
            let id = if r < 4 { prog.add_op(obj, Kind::Sync, Disp::None, vec![Step::Touch]) }
                     else if r < 8 { prog.add_op(obj, Kind::Desync, Disp::None, vec![Step::Touch]) }
                     else if r < 10 { prog.add_op(obj, Kind::FutDesync, Disp::Detach, vec![Step::Touch, Step::Yield, Step::Touch]) }
                     // a future operation that its caller polls once (possibly starting it on the calling thread) and then abandons: when
                     // the event it waits for arrives, a free pool thread has to take the object over
                     else { let g = prog.new_gate(); prog.add_op(obj, Kind::FutDesync, Disp::PollDrop(1), vec![Step::Touch, Step::Gate(g), Step::Touch]) };
            if !touched.contains(&obj) { touched.push(obj); }
            acts.push(TAct::Op(id));
        }
        if saturate {
            // no pool thread is free: every piece of detached work is followed by a sync of the same thread, which must carry it
            for obj in touched { let id = prog.add_op(obj, Kind::Sync, Disp::None, vec![Step::Touch]); acts.push(TAct::Op(id)); }
        }
        prog.threads.push(acts);
    }
    finish_firer(rng, &mut prog, 0);
    prog
}

/// C14/C04: a thread waiting in `sync` for a busy object takes the queue over when it is released and runs, ahead of its own closure,
/// a queued job that itself makes a blocking `sync` on ANOTHER busy object: two blocking waits nested on one thread. No pool thread
/// exists, so all of it is carried by the callers.
pub fn t_nested_sync_in_stolen_queue(rng: &mut Rng, profile: &'static str, run_seed: u64, _miri: bool) -> Program {
    let mut prog = Program::new(run_seed, profile, "blocking_sync_inside_a_job_run_by_a_waiting_sync_caller");
    prog.pool = 0;
    prog.pool_mode = PoolMode::Fresh;
    prog.n_obj = 2;
    prog.hold_phase = true;
    prog.held_objs = vec![0, 1];
    let (hy, hz) = (prog.new_hold(), prog.new_hold());
    // thread 0 holds object 0, thread 1 holds object 1 (both inside sync closures, on their own threads)
    let y = prog.add_op(0, Kind::Sync, Disp::None, vec![Step::Touch, Step::Hold(hy), Step::Touch]);
    let z = prog.add_op(1, Kind::Sync, Disp::None, vec![Step::Touch, Step::Hold(hz), Step::Touch]);
    prog.threads.push(vec![TAct::Op(y)]);
    prog.threads.push(vec![TAct::Op(z)]);
    // thread 2 queues a job on object 0 whose body synchronises with object 1
    let nb = prog.add_op(1, Kind::Sync, Disp::None, vec![Step::Touch]);
    let n = prog.add_op(0, Kind::Desync, Disp::None, vec![Step::Touch, Step::Nest(nb), Step::Touch]);
    prog.ops[nb].parent = Some(n);
    let mut t2 = vec![TAct::WaitStart(y), TAct::WaitStart(z), TAct::Op(n)];
    for _ in 0..rng.below(2) { let id = prog.add_op(0, Kind::Desync, Disp::None, vec![Step::Touch]); t2.push(TAct::Op(id)); }
    prog.threads.push(t2);
    // thread 3 waits in sync on object 0 behind all that
    let sx = prog.add_op(0, Kind::Sync, Disp::None, vec![Step::Touch]);
    prog.threads.push(vec![TAct::WaitRet(n), TAct::Op(sx)]);
    prog.hold_wait_threads = Some(vec![2]);
    prog.hold_wait_invoked = vec![sx];
    // object 0 is released first; once nothing moves any more (the waiter sits in the nested wait), object 1 is released
    prog.hold_groups.push((vec![hy], Some(nb)));
    prog.hold_groups.push((vec![hz], None));
    prog
}

/// C10: the maximum is lowered (to a value that still exceeds the number of blocked bodies) and the pool despawned while the threads
/// that have to be retired are inside blocked bodies: the despawn waits for them, and meanwhile operations on other objects must run
/// on the idle threads that remain
pub fn t_despawn_while_blocked(rng: &mut Rng, profile: &'static str, run_seed: u64, _miri: bool) -> Program {
    let mut prog = Program::new(run_seed, profile, "despawn_waits_for_blocked_retiring_threads");
    prog.pool = 3;
    prog.pool_mode = PoolMode::Fresh;
    // objects: 0,1 temporaries (they take the first two pool threads), 2 blocked (third thread), 3 free
    prog.n_obj = 4;
    prog.held_objs = vec![0, 1, 2];
    let (h0, h1, h2) = (prog.new_hold(), prog.new_hold(), prog.new_hold());
    let t0 = prog.add_op(0, Kind::Desync, Disp::None, vec![Step::Touch, Step::Hold(h0)]);
    let t1 = prog.add_op(1, Kind::Desync, Disp::None, vec![Step::Touch, Step::Hold(h1)]);
    let b = prog.add_op(2, Kind::Desync, Disp::None, vec![Step::Touch, Step::Hold(h2), Step::Touch]);
    let mut probes = vec![];
    for _ in 0..rng.range(2, 4) {
        let id = if rng.chance(2, 3) { prog.add_op(3, Kind::Desync, Disp::None, vec![Step::Touch]) } else { prog.add_op(3, Kind::Sync, Disp::None, vec![Step::Touch]) };
        probes.push(TAct::Op(id));
    }
    // each body is scheduled once the previous one has started, so that they sit on the pool threads in list order
    prog.phases.push(Phase { name: "despawn_while_a_retiring_thread_is_blocked", threads: vec![vec![TAct::Op(t0), TAct::WaitStart(t0), TAct::Op(t1), TAct::WaitStart(t1), TAct::Op(b)]],
        occupy: vec![h0, h1, h2], release_first: vec![h0, h1], lower_while_busy: Some(2), after_deaths: probes, ..Default::default() });
    // phase 0: a little ordinary work on the free object
    let id = prog.add_op(3, Kind::Desync, Disp::None, vec![Step::Touch]);
    prog.threads.push(vec![TAct::Op(id)]);
    prog
}

/// C10: work is pending on several objects while no pool thread is allowed; then the maximum is raised with `set_max_threads(n)`.
/// k < n of the objects block on holds: everything else must still complete
pub fn t_raise(rng: &mut Rng, profile: &'static str, run_seed: u64, miri: bool) -> Program {
    let mut prog = Program::new(run_seed, profile, "raise_maximum_with_work_pending");
    prog.pool = 0;
    prog.pool_mode = PoolMode::Fresh;
    let n = rng.range(2, 3) as usize;
    let k = rng.range(1, n as u64 - 1) as usize;
    let n_free = rng.range(1, if miri { 1 } else { 2 }) as usize;
    prog.n_obj = k + n_free;
    prog.held_objs = (0..k).collect();
    let mut occupy = vec![];
    // phase 0 (no pool thread): everything is only queued; the order in which the queues are scheduled is shuffled
    let mut acts: Vec<TAct> = vec![];
    for o in 0..k { let h = prog.new_hold(); occupy.push(h); let id = prog.add_op(o, Kind::Desync, Disp::None, vec![Step::Touch, Step::Hold(h), Step::Touch]); acts.push(TAct::Op(id)); }
    for o in k..k + n_free { for _ in 0..rng.range(1, 2) { let id = prog.add_op(o, Kind::Desync, Disp::None, vec![Step::Touch]); acts.push(TAct::Op(id)); } }
    rng.shuffle(&mut acts);
    prog.threads.push(acts);
    prog.phases.push(Phase { name: "maximum_raised_eagerly", reconfig: Some(n), eager: true, occupy, free_must_complete: true, ..Default::default() });
    finish_firer(rng, &mut prog, 0);
    prog
}

/// C08/C14/C01: a future_sync future is polled until its operation is suspended in the middle, then dropped, with other operations
/// already queued behind it (the lifetime-erasing cancellation path)
pub fn t_cancel_fs(rng: &mut Rng, profile: &'static str, run_seed: u64, miri: bool) -> Program {
    let mut prog = Program::new(run_seed, profile, "future_sync_cancelled_mid_operation");
    prog.pool = *rng.pick(&[1usize, 1, 2, 3]);
    prog.pool_mode = *rng.pick(&[PoolMode::Warm, PoolMode::Fresh]);
    prog.n_obj = 1;
    let g = prog.new_gate();
    let mut t0 = vec![];
    for _ in 0..rng.below(2) { let id = prog.add_op(0, Kind::Desync, Disp::None, vec![Step::Touch]); t0.push(TAct::Op(id)); }
    // the gate stays closed until the future has been dropped (it is fired at the very end by the firer)
    let fs = prog.add_op(0, Kind::FutSync, Disp::PollDrop(rng.range(2, 4) as u8), vec![Step::Touch, Step::Gate(g), Step::Touch]);
    let mut t1 = vec![];
    for _ in 0..rng.range(1, if miri { 2 } else { 3 }) {
        let id = if rng.chance(2, 3) { prog.add_op(0, Kind::Desync, Disp::None, vec![Step::Touch, Step::Touch]) } else { prog.add_op(0, Kind::FutDesync, Disp::Detach, vec![Step::Touch, Step::Yield, Step::Touch]) };
        t1.push(TAct::Op(id));
    }
    if rng.chance(1, 2) { t0.push(TAct::Op(fs)); t0.extend(t1.clone()); prog.threads.push(t0); }
    else { t0.push(TAct::Op(fs)); prog.threads.push(t1); prog.threads.push(t0); }
    if rng.chance(1, 2) { let id = prog.add_op(0, Kind::Sync, Disp::None, vec![Step::Touch]); prog.threads.push(vec![TAct::Op(id)]); }
    prog.fire.push(FAct::Fire(g));
    prog
}

/// C08/C01/C14: a future_sync (or future_desync) operation awaited to completion whose body future keeps its state - and the borrow
/// of the value - after returning Ready, until the future object is dropped; other operations are queued behind it by then
pub fn t_retain(rng: &mut Rng, profile: &'static str, run_seed: u64, miri: bool) -> Program {
    let mut prog = Program::new(run_seed, profile, "body_keeps_state_until_its_future_is_dropped");
    // (not pool 0: an awaited future sharing its object with other threads needs a pool thread, see the legitimacy rules)
    prog.pool = *rng.pick(&[1usize, 1, 2, 3]);
    prog.pool_mode = *rng.pick(&[PoolMode::Warm, PoolMode::Fresh]);
    prog.n_obj = 1;
    let g = prog.new_gate();
    let mut t0 = vec![];
    for _ in 0..rng.below(2) { let id = prog.add_op(0, Kind::Desync, Disp::None, vec![Step::Touch]); t0.push(TAct::Op(id)); }
    let kind = if rng.chance(1, 4) { Kind::FutDesync } else { Kind::FutSync };
    let fs = prog.add_op(0, kind, Disp::Await, vec![Step::Touch, Step::Gate(g), Step::Touch, Step::Retain]);
    t0.push(TAct::Op(fs));
    prog.threads.push(t0);
    // queued behind it once its body has started; the gate opens when the last non-blocking call has returned
    let mut t1 = vec![TAct::WaitStart(fs)];
    let mut last = None;
    for _ in 0..rng.range(1, if miri { 2 } else { 3 }) {
        let id = if rng.chance(2, 3) { prog.add_op(0, Kind::Desync, Disp::None, vec![Step::Touch, Step::Touch]) } else { prog.add_op(0, Kind::FutDesync, Disp::Detach, vec![Step::Touch, Step::Yield, Step::Touch]) };
        t1.push(TAct::Op(id)); last = Some(id);
    }
    if rng.chance(1, 2) { let id = prog.add_op(0, Kind::Sync, Disp::None, vec![Step::Touch]); t1.push(TAct::Op(id)); }
    prog.threads.push(t1);
    prog.fire.push(FAct::WaitRet(last.unwrap()));
    prog.fire.push(FAct::Fire(g));
    prog
}

/// C05/C14: the last owner of an object is dropped while a future_desync operation - whose future its caller still holds, and whose
/// caller may have started it by polling (claiming the queue while its schedule entry was still there) - is suspended, with more work
/// queued behind it. The drop has to wait for all of it; the value goes away exactly once, afterwards.
pub fn t_drop_held_future(rng: &mut Rng, profile: &'static str, run_seed: u64, miri: bool) -> Program {
    let mut prog = Program::new(run_seed, profile, "last_owner_dropped_while_held_future_is_suspended");
    // half of the time every pool thread is kept inside a blocked body on another object while all this happens: the drop then waits
    // like any sync caller does and has to take the queue over itself when it is released
    let saturated = rng.chance(1, 2);
    prog.pool = if saturated { rng.range(1, 2) as usize } else { *rng.pick(&[1usize, 1, 2, 3]) };
    prog.pool_mode = *rng.pick(&[PoolMode::Warm, PoolMode::Fresh]);
    prog.mortal = Some(0);
    let mut wait_saturated = vec![];
    if saturated {
        prog.n_obj = 1 + prog.pool;
        prog.hold_phase = true;
        prog.held_objs = (1..=prog.pool).collect();
        let mut holder = vec![];
        for o in 1..=prog.pool { let h = prog.new_hold(); let id = prog.add_op(o, Kind::Desync, Disp::None, vec![Step::Touch, Step::Hold(h)]); holder.push(TAct::Op(id)); wait_saturated.push(TAct::WaitStart(id)); }
        prog.threads.push(holder);
        prog.hold_wait_threads = Some(vec![1, 2]);
    } else {
        prog.n_obj = if prog.pool > 1 && rng.chance(1, 2) { 2 } else { 1 };
    }
    let g = prog.new_gate();
    let mut a = wait_saturated.clone();
    for _ in 0..rng.below(2) { let id = prog.add_op(0, Kind::Desync, Disp::None, vec![Step::Touch]); a.push(TAct::Op(id)); }
    let mut body = vec![Step::Touch, Step::Gate(g), Step::Touch];
    if rng.chance(1, 4) { body.push(Step::Retain); }
    let fd = prog.add_op(0, Kind::FutDesync, Disp::Hold, body);
    a.push(TAct::Op(fd));
    for _ in 0..rng.range(1, if miri { 1 } else { 3 }) { let id = prog.add_op(0, Kind::Desync, Disp::None, vec![Step::Touch, Step::Touch]); a.push(TAct::Op(id)); }
    // the owner goes first; the future is awaited (or abandoned) afterwards
    a.push(TAct::ReleaseMortal);
    a.push(if saturated || rng.chance(3, 4) { TAct::Join(fd) } else { TAct::DropHeld(fd) });
    prog.threads.push(a);
    // a second owner, released at some point while all that is going on
    let mut b = wait_saturated;
    if rng.chance(1, 2) { let id = prog.add_op(0, Kind::Desync, Disp::None, vec![Step::Touch]); b.push(TAct::Op(id)); }
    b.push(TAct::ReleaseMortal);
    prog.threads.push(b);
    // sometimes the pool is busy elsewhere for a moment
    if !saturated && prog.n_obj == 2 { let id = prog.add_op(1, Kind::Desync, Disp::None, vec![Step::Touch, Step::Pause, Step::Touch]); prog.threads.push(vec![TAct::Op(id)]); }
    finish_firer(rng, &mut prog, 0);
    prog
}

/// C09: a try_sync issued while a gated operation occupies the object; the gate is opened only after try_sync has returned
pub fn t_try_block(rng: &mut Rng, profile: &'static str, run_seed: u64, miri: bool) -> Program {
    let mut prog = Program::new(run_seed, profile, "try_sync_must_not_block");
    prog.pool = *rng.pick(&[0usize, 1, 1, 2, 3]);
    prog.pool_mode = *rng.pick(&[PoolMode::Warm, PoolMode::Fresh]);
    prog.n_obj = 1;
    let g = prog.new_gate();
    let mut t0 = vec![];
    for _ in 0..rng.below(2) { let id = prog.add_op(0, Kind::Desync, Disp::None, vec![Step::Touch]); t0.push(TAct::Op(id)); }
    let gop = prog.add_op(0, Kind::FutDesync, Disp::Detach, vec![Step::Touch, Step::Gate(g), Step::Touch]);
    t0.push(TAct::Op(gop));
    for _ in 0..rng.below(2) { let id = prog.add_op(0, Kind::Desync, Disp::None, vec![Step::Touch]); t0.push(TAct::Op(id)); }
    // with a pool thread available, usually wait until the gated operation has actually been started (and is then suspended on
    // its gate, occupying the object) before trying
    if prog.pool > 0 && rng.chance(3, 4) { t0.push(TAct::WaitStart(gop)); }
    let x = prog.add_op(0, Kind::TrySync, Disp::None, vec![Step::Touch]);
    t0.push(TAct::Op(x));
    for _ in 0..rng.below(3) { let id = prog.add_op(0, Kind::TrySync, Disp::None, vec![Step::Touch]); t0.push(TAct::Op(id)); }
    prog.threads.push(t0);
    prog.fire.push(FAct::WaitRet(x));
    prog.fire.push(FAct::Fire(g));
    if prog.pool > 0 || true {
        // other threads keep completing operations on the same object: the windows between "queue released" and "rescheduled"
        // other threads: none, only try_sync (so that the suspended operation stays the only thing queued), or a mix
        let others = rng.below(3);
        for _ in 0..(if others == 0 { 0 } else { rng.range(1, if miri { 1 } else { 3 }) }) {
            let mut acts = vec![];
            for _ in 0..rng.range(1, if miri { 2 } else { 4 }) {
                let r = if others == 1 { 2 } else { rng.below(3) };
                let id = match r { 0 => prog.add_op(0, Kind::Sync, Disp::None, vec![Step::Touch]), 1 => prog.add_op(0, Kind::Desync, Disp::None, vec![Step::Touch]), _ => prog.add_op(0, Kind::TrySync, Disp::None, vec![Step::Touch]) };
                acts.push(TAct::Op(id));
            }
            prog.threads.push(acts);
        }
    }
    finish_firer(rng, &mut prog, 0);
    prog
}

/// C09: hammer try_sync while other threads finish sync/desync on the same object
pub fn t_try_hammer(rng: &mut Rng, profile: &'static str, run_seed: u64, miri: bool) -> Program {
    let mut prog = Program::new(run_seed, profile, "try_sync_vs_completions");
    prog.pool = *rng.pick(&[0usize, 1, 1, 2, 3]);
    prog.pool_mode = PoolMode::Warm;
    prog.n_obj = 1;
    let mut t0 = vec![];
    for _ in 0..rng.range(2, if miri { 3 } else { 8 }) { let id = prog.add_op(0, Kind::TrySync, Disp::None, vec![Step::Touch]); t0.push(TAct::Op(id)); }
    prog.threads.push(t0);
    for _ in 0..rng.range(1, if miri { 2 } else { 3 }) {
        let mut acts = vec![];
        for _ in 0..rng.range(1, if miri { 2 } else { 5 }) {
            let id = if rng.chance(1, 2) { prog.add_op(0, Kind::Sync, Disp::None, vec![Step::Touch]) } else { prog.add_op(0, Kind::Desync, Disp::None, vec![Step::Touch]) };
            acts.push(TAct::Op(id));
        }
        prog.threads.push(acts);
    }
    finish_firer(rng, &mut prog, 0);
    prog
}

/// C09 (also C08/C01): try_sync keeps arriving while a future_sync operation of the same object is cancelled in the middle of its
/// body (its future dropped while the body is suspended on a gate). The body is still executing until its destructor has run (the
/// span ends there, a little later under noise): a try_sync that gets in before that has not had exclusive access.
pub fn t_try_vs_cancel(rng: &mut Rng, profile: &'static str, run_seed: u64, miri: bool) -> Program {
    let mut prog = Program::new(run_seed, profile, "try_sync_vs_cancelled_future_sync");
    prog.pool = *rng.pick(&[1usize, 1, 2, 3]);
    prog.pool_mode = *rng.pick(&[PoolMode::Warm, PoolMode::Fresh]);
    prog.n_obj = 1;
    let mut t0 = vec![];
    let mut started = vec![];
    for _ in 0..rng.range(1, if miri { 1 } else { 3 }) {
        if rng.chance(1, 3) { let id = prog.add_op(0, Kind::Desync, Disp::None, vec![Step::Touch]); t0.push(TAct::Op(id)); }
        let g = prog.new_gate();
        let mut body = vec![Step::Touch, Step::Gate(g), Step::Touch];
        if rng.chance(1, 2) { body.push(Step::Retain); }
        let id = prog.add_op(0, Kind::FutSync, Disp::PollDrop(rng.range(1, 3) as u8), body);
        t0.push(TAct::Op(id));
        started.push(id);
        if rng.chance(1, 3) { let id = prog.add_op(0, Kind::Desync, Disp::None, vec![Step::Touch]); t0.push(TAct::Op(id)); }
    }
    prog.threads.push(t0);
    for _ in 0..rng.range(1, if miri { 1 } else { 2 }) {
        let mut acts = vec![TAct::WaitStart(started[0])];
        for _ in 0..rng.range(3, if miri { 5 } else { 14 }) { let id = prog.add_op(0, Kind::TrySync, Disp::None, vec![Step::Touch]); acts.push(TAct::Op(id)); }
        prog.threads.push(acts);
    }
    // the gates stay closed until the futures have been dropped in most runs: the firer opens them at the end, as always
    finish_firer(rng, &mut prog, 0);
    prog
}

/// C09/C14/C01: try_sync keeps arriving while suspended future operations of the same object (each holding its borrow of the
/// value across the suspension) are being woken: every wake-up passes through "queue released, not yet rescheduled"
pub fn t_try_wake_window(rng: &mut Rng, profile: &'static str, run_seed: u64, miri: bool) -> Program {
    let mut prog = Program::new(run_seed, profile, "try_sync_vs_wakeups_of_suspended_operations");
    prog.pool = *rng.pick(&[1usize, 1, 2, 3]);
    prog.pool_mode = *rng.pick(&[PoolMode::Warm, PoolMode::Fresh]);
    prog.n_obj = 1;
    let mut t0 = vec![];
    for _ in 0..rng.range(1, if miri { 2 } else { 5 }) {
        let g = prog.new_gate();
        let mut body = vec![Step::Touch, Step::Gate(g), Step::Touch];
        if rng.chance(1, 3) { let g2 = prog.new_gate(); body.push(Step::Gate(g2)); body.push(Step::Touch); }
        let id = prog.add_op(0, Kind::FutDesync, Disp::Detach, body);
        t0.push(TAct::Op(id));
        if rng.chance(1, 4) { let id = prog.add_op(0, Kind::Desync, Disp::None, vec![Step::Touch]); t0.push(TAct::Op(id)); }
    }
    prog.threads.push(t0);
    for _ in 0..rng.range(1, if miri { 1 } else { 2 }) {
        let mut acts = vec![];
        for _ in 0..rng.range(2, if miri { 4 } else { 12 }) { let id = prog.add_op(0, Kind::TrySync, Disp::None, vec![Step::Touch]); acts.push(TAct::Op(id)); }
        prog.threads.push(acts);
    }
    finish_firer(rng, &mut prog, 0);
    prog
}

/// C06/C09/C14/C04: an event source kept the waker of a completed future operation that a `sync` caller had run on its own thread
/// (pool saturated at that time). Later another future operation of the same object is suspended on a pool thread and the old waker
/// is called: the queue is released without being rescheduled, with the suspended operation still at its front. Then come
/// try_sync / sync / desync calls, and finally the event the suspended operation is really waiting for.
pub fn t_stale_thread_waker(rng: &mut Rng, profile: &'static str, run_seed: u64, miri: bool) -> Program {
    let mut prog = Program::new(run_seed, profile, "stale_sync_thread_waker_releases_suspended_queue");
    prog.pool = rng.range(1, 2) as usize;
    prog.pool_mode = *rng.pick(&[PoolMode::Warm, PoolMode::Fresh]);
    let p = prog.pool;
    prog.n_obj = p + 2;
    let aux = p + 1;
    prog.hold_phase = true;
    prog.held_objs = (1..=aux).collect();
    // thread 0: saturate the pool
    let mut holders = vec![]; let mut saturated = vec![];
    for o in 1..=p { let h = prog.new_hold(); let id = prog.add_op(o, Kind::Desync, Disp::None, vec![Step::Touch, Step::Hold(h)]); holders.push(TAct::Op(id)); saturated.push(TAct::WaitStart(id)); }
    prog.threads.push(holders);
    // thread 1: a future operation run by this thread's own sync (its waker wakes this thread), stashed by the body
    let mut t1 = saturated.clone();
    let a1 = prog.add_op(0, Kind::FutDesync, Disp::Detach, vec![Step::Touch, Step::StashWaker, Step::Touch]); t1.push(TAct::Op(a1));
    let s1 = prog.add_op(0, Kind::Sync, Disp::None, vec![Step::Touch]); t1.push(TAct::Op(s1));
    prog.threads.push(t1);
    prog.hold_wait_threads = Some(vec![1]);
    // thread 2: starts once the pool is free again (its marker operation can only run then)
    let mut t2 = saturated;
    let marker = prog.add_op(aux, Kind::Desync, Disp::None, vec![Step::Touch]); t2.push(TAct::Op(marker)); t2.push(TAct::WaitStart(marker));
    let g = prog.new_gate();
    let a2 = prog.add_op(0, Kind::FutDesync, Disp::Detach, vec![Step::Touch, Step::Gate(g), Step::Touch]); t2.push(TAct::Op(a2)); t2.push(TAct::WaitStart(a2));
    let mut first_try = None;
    for _ in 0..rng.range(1, if miri { 2 } else { 4 }) {
        t2.push(TAct::FireStashedWakers);
        let x = prog.add_op(0, Kind::TrySync, Disp::None, vec![Step::Touch]); t2.push(TAct::Op(x));
        if first_try.is_none() { first_try = Some(x); }
    }
    // sometimes other callers arrive while the queue is in that state
    match rng.below(4) {
        0 => { let id = prog.add_op(0, Kind::Desync, Disp::None, vec![Step::Touch]); t2.push(TAct::Op(id)); }
        1 => { let id = prog.add_op(0, Kind::FutDesync, Disp::Detach, vec![Step::Touch, Step::Yield, Step::Touch]); t2.push(TAct::Op(id)); }
        // a sync caller finds the queue Idle and not empty: it runs the suspended operation's next poll on its own thread
        2 => { let id = prog.add_op(0, Kind::Sync, Disp::None, vec![Step::Touch]); t2.push(TAct::Op(id)); }
        _ => {}
    }
    prog.threads.push(t2);
    prog.fire.push(FAct::WaitRet(first_try.unwrap()));
    prog.fire.push(FAct::Fire(g));
    finish_firer(rng, &mut prog, 0);
    prog
}

// ---- pipes

fn item_body(rng: &mut Rng, prog: &mut Program, p_gate: u64) -> Vec<Step> {
    let mut b = vec![Step::Touch];
    let r = rng.below(100);
    if r < p_gate { let g = prog.new_gate(); b.push(Step::Gate(g)); b.push(Step::Touch); }
    else if r < p_gate + 20 { b.push(Step::Yield); b.push(Step::Touch); }
    b
}

/// C11/C12/C16
pub fn t_pipe(rng: &mut Rng, profile: &'static str, run_seed: u64, miri: bool, through: bool, drop_output: bool) -> Program {
    let mut prog = Program::new(run_seed, profile, if !through { "pipe_in" } else if drop_output { "pipe_output_dropped" } else { "pipe_through" });
    prog.pool = *rng.pick(&[1usize, 1, 2, 3]);
    prog.pool_mode = *rng.pick(&[PoolMode::Warm, PoolMode::Warm, PoolMode::Fresh]);
    prog.n_obj = 1;
    let mortal = !through && rng.chance(1, 3) || (through && drop_output);
    if mortal { prog.mortal = Some(0); }
    let n_items = if drop_output { rng.range(0, 6) } else { rng.range(0, if miri { 4 } else { 30 }) } as usize;
    let depth = rng.range(1, 5) as usize;
    let mut items = vec![];
    for _ in 0..n_items {
        let b = item_body(rng, &mut prog, if drop_output { 40 } else { 15 });
        let id = prog.add_op(0, Kind::PipeItem, Disp::None, b);
        prog.ops[id].pipe = Some(0);
        items.push(id);
    }
    let preloaded = rng.below(n_items as u64 + 1).min(if rng.chance(1, 2) { 0 } else { 8 }) as usize;
    let close = !drop_output && rng.chance(4, 5);
    let preclosed = close && preloaded == n_items && rng.chance(1, 2);
    // (a pipe_in whose target may lose its last owner at any moment, fed by a stream that keeps waking the pipe from inside its own poll)
    let self_wakes = if mortal && !through && rng.chance(1, 3) { rng.range(20, 300) as usize } else { 0 };
    prog.pipes.push(PipeDef { obj: 0, through, depth, items: items.clone(), preloaded, preclosed, mpsc: !drop_output && self_wakes == 0 && rng.chance(1, 4), register_first: rng.chance(1, 3), keep_waker: rng.chance(1, 3), chain_to: None, self_wakes });
    // creator / consumer thread
    let mut t0 = vec![TAct::PipeCreate(0)];
    if through {
        if drop_output {
            let read = rng.below(n_items as u64 + 1) as usize;
            if read > 0 && rng.chance(1, 2) { t0.push(TAct::Consume(0, read.min(n_items))); }
            t0.push(TAct::DropStream(0));
        } else if n_items >= 2 && !miri && rng.chance(1, 3) {
            // read a few outputs, then stop reading until everything has gone quiet: the producer must have moved on by then
            let k = rng.range(1, n_items as u64 - 1) as usize;
            let h = prog.new_hold();
            prog.checkpoint_hold = Some(h);
            t0.push(TAct::Consume(0, k));
            t0.push(TAct::Checkpoint);
            // sometimes the consumer changes the depth while the producer is (probably) throttled, then reads on
            if rng.chance(1, 2) { t0.push(TAct::SetDepth(0, rng.range(1, 5) as usize)); }
            t0.push(TAct::Consume(0, if close { usize::MAX } else { n_items - k }));
        } else if close {
            // sometimes read slowly in chunks so that the producer is throttled first
            let mut left = n_items;
            while left > 0 && rng.chance(1, 2) {
                let c = rng.range(1, left as u64) as usize; t0.push(TAct::Consume(0, c)); left -= c;
                if rng.chance(1, 3) { t0.push(TAct::SetDepth(0, rng.range(1, 5) as usize)); }
            }
            t0.push(TAct::Consume(0, usize::MAX));
        } else {
            t0.push(TAct::Consume(0, n_items));
        }
    }
    if mortal && !through { if rng.chance(1, 2) { t0.push(TAct::ReleaseMortal); } }
    prog.threads.push(t0);
    // other threads use the object concurrently
    if !miri || rng.chance(1, 2) {
        for _ in 0..rng.range(0, 2) {
            let mut acts = vec![];
            for _ in 0..rng.range(1, 4) {
                // (besides sync/desync: futures of the same object that their caller polls a few times and abandons - such a poll may
                //  run the pipe's own read job on the caller's thread and leave the queue to be taken over by the pool - detached
                //  futures and try_sync)
                let r = rng.below(100);
                let id = if r < 38 { prog.add_op(0, Kind::Sync, Disp::None, vec![Step::Touch]) }
                    else if r < 68 { prog.add_op(0, Kind::Desync, Disp::None, vec![Step::Touch]) }
                    else if r < 84 {
                        // (A queue left parked by a polled-and-abandoned future is only taken over by a FREE pool thread, section 4 of
                        //  DESIGN.md. When the output stream of a pipe is dropped, the pipe's reference to its target is released on the
                        //  crate's internal disposal queue, i.e. Desync::drop - which waits for the target's queue - may run on a pool
                        //  thread: with a pool of one that thread would wait for a take-over only it could perform.)
                        // (the same holds whenever the program gives up its owners of the target: since fix e9d4df7 a pipe_in, too, may release the
                        //  last reference on the disposal queue)
                        let abandon_ok = prog.pool >= 2 || !mortal;
                        let body = if rng.chance(1, 2) { vec![Step::Touch] } else { let g = prog.new_gate(); vec![Step::Touch, Step::Gate(g), Step::Touch] };
                        prog.add_op(0, Kind::FutDesync, if abandon_ok { Disp::PollDrop(rng.range(1, 2) as u8) } else { Disp::Detach }, body) }
                    else if r < 94 { prog.add_op(0, Kind::FutDesync, Disp::Detach, vec![Step::Touch, Step::Yield, Step::Touch]) }
                    else { prog.add_op(0, Kind::TrySync, Disp::None, vec![Step::Touch]) };
                acts.push(TAct::Op(id));
            }
            // sometimes the object is suspended for a while by one of these threads (only non-blocking operations between the suspend
            // request and the resume): items that arrive meanwhile are held like any other work and must be processed, in order,
            // after the resume
            if cfg!(feature = "hooks") && !miri && rng.chance(1, 4) {
                let nonblocking = |a: &TAct, prog: &Program| match a { TAct::Op(o) => matches!((prog.ops[*o].kind, prog.ops[*o].disp), (Kind::Desync, _) | (Kind::TrySync, _) | (Kind::FutDesync, Disp::Detach)), _ => false };
                let at = rng.below(acts.len() as u64 + 1) as usize;
                let mut end = at;
                while end < acts.len() && nonblocking(&acts[end], &prog) && rng.chance(3, 4) { end += 1; }
                let sus = prog.add_op(0, Kind::Suspend, Disp::Await, vec![]);
                acts.insert(end, TAct::Resume(sus, rng.chance(2, 3)));
                acts.insert(at, TAct::Op(sus));
            }
            if mortal { let at = rng.below(acts.len() as u64 + 1) as usize; let _ = at; acts.push(TAct::ReleaseMortal); }
            prog.threads.push(acts);
        }
    }
    // the firer feeds the input
    // a separate thread feeds the input: a push can block (the wake-up may end up dropping the last owner of the target, which waits
    // for the queue), so it must not be the thread that opens the gates
    // sometimes an item is only pushed once the consumer is waiting for it (the output then has to wake the consumer)
    let wait_for_consumer = through && !drop_output && rng.chance(if miri { 2 } else { 1 }, 3);
    for _ in preloaded..n_items {
        if wait_for_consumer && rng.chance(1, 2) { prog.pusher.push(FAct::WaitConsumerWaiting(0)); }
        prog.pusher.push(FAct::Item(0));
    }
    if wait_for_consumer && close && !preclosed && rng.chance(1, 2) { prog.pusher.push(FAct::WaitConsumerWaiting(0)); }
    if close && !preclosed { prog.pusher.push(FAct::Close(0)); }
    let mut gates: Vec<usize> = (0..prog.n_gates).collect();
    rng.shuffle(&mut gates);
    for g in gates { if rng.below(100) < 10 { prog.prefired.push(g); } else { prog.fire.push(FAct::Fire(g)); } }
    prog
}

/// C11: two pipe_in pipes in a forwarding chain: the closure of the first owns the feeding end of the second. Both inputs stay open
/// during the run; they are ended (first -> second) once both targets are gone, so the second pipe's last stream event arrives from
/// inside the disposal of the first
pub fn t_pipe_chain(rng: &mut Rng, profile: &'static str, run_seed: u64, miri: bool) -> Program {
    let mut prog = Program::new(run_seed, profile, "pipe_in_chain");
    prog.pool = *rng.pick(&[1usize, 2, 3]);
    prog.pool_mode = *rng.pick(&[PoolMode::Warm, PoolMode::Fresh]);
    prog.n_obj = 2;
    for p in 0..2usize {
        let n_items = rng.range(0, if miri { 2 } else { 5 }) as usize;
        let mut items = vec![];
        for _ in 0..n_items { let b = item_body(rng, &mut prog, 10); let id = prog.add_op(p, Kind::PipeItem, Disp::None, b); prog.ops[id].pipe = Some(p); items.push(id); }
        for _ in 0..n_items { prog.pusher.push(FAct::Item(p)); }
        prog.pipes.push(PipeDef { obj: p, through: false, depth: 5, items, preloaded: 0, preclosed: false, mpsc: false, register_first: rng.chance(1, 2), keep_waker: rng.chance(1, 3), chain_to: if p == 0 { Some(1) } else { None }, self_wakes: 0 });
    }
    let mut pusher = std::mem::take(&mut prog.pusher);
    rng.shuffle(&mut pusher);
    prog.pusher = pusher;
    prog.threads.push(vec![TAct::PipeCreate(0), TAct::PipeCreate(1)]);
    let mut gates: Vec<usize> = (0..prog.n_gates).collect();
    rng.shuffle(&mut gates);
    for g in gates { prog.fire.push(FAct::Fire(g)); }
    prog
}

/// C13: one thread suspends the object (awaiting the request itself, so that its own poll drains the queue up to the suspension
/// point when no pool thread does); once the suspension is in effect, two or three other threads call `sync` on it - held work -
/// and when all of them are inside their calls the suspending thread uses or drops the resumer. With no pool thread (or few) the
/// waiting callers have to pass the queue on among themselves: every one of the calls must return, in call order.
pub fn t_suspend_waiters(rng: &mut Rng, profile: &'static str, run_seed: u64, miri: bool) -> Program {
    let mut prog = Program::new(run_seed, profile, "suspend_with_sync_waiters");
    prog.pool = *rng.pick(&[0usize, 0, 0, 1, 2]);
    prog.pool_mode = *rng.pick(&[PoolMode::Warm, PoolMode::Warm, PoolMode::Fresh]);
    prog.n_obj = 1;
    let mut a = vec![];
    for _ in 0..rng.below(3) { let id = prog.add_op(0, Kind::Desync, Disp::None, vec![Step::Touch]); a.push(TAct::Op(id)); }
    let s = prog.add_op(0, Kind::Suspend, Disp::Await, vec![]);
    a.push(TAct::Op(s));
    let nw = rng.range(2, if miri { 2 } else { 3 }) as usize;
    let mut waiters = vec![];
    for _ in 0..nw {
        let mut acts = vec![TAct::WaitResolved(s)];
        if rng.chance(1, 3) { let id = prog.add_op(0, Kind::Desync, Disp::None, vec![Step::Touch]); acts.push(TAct::Op(id)); }
        let id = prog.add_op(0, Kind::Sync, Disp::None, if rng.chance(1, 2) { vec![Step::Touch, Step::Pause, Step::Touch] } else { vec![Step::Touch] });
        acts.push(TAct::Op(id));
        a.push(TAct::WaitInv(id));
        if rng.chance(1, 3) { let id = prog.add_op(0, Kind::Desync, Disp::None, vec![Step::Touch]); acts.push(TAct::Op(id)); }
        waiters.push(acts);
    }
    a.push(TAct::Resume(s, rng.chance(2, 3)));
    prog.threads.push(a);
    for w in waiters { prog.threads.push(w); }
    finish_firer(rng, &mut prog, 10);
    prog
}

// ---------------------------------------------------------------------------------------------

/// Asserts the legitimacy rules on a generated program (a failure here is a generator bug, never a violation)
pub fn validate(prog: &Program) -> Result<(), String> {
    for (t, acts) in prog.threads.iter().enumerate() {
        let mut open_fs: Vec<OpId> = vec![];
        let mut open_res: Vec<OpId> = vec![];
        let mut released = false;
        for a in acts {
            let nb_only = !open_fs.is_empty() || !open_res.is_empty();
            match a {
                TAct::Op(o) => {
                    let d = &prog.ops[*o];
                    if released && Some(d.obj) == prog.mortal { return Err(format!("thread {} uses the mortal object after releasing it", t)); }
                    let blocking = matches!(d.kind, Kind::Sync) || matches!(d.disp, Disp::Await | Disp::SyncWait | Disp::PollDrop(_)) && d.kind != Kind::Suspend || (d.kind == Kind::Suspend && d.disp == Disp::Await);
                    if nb_only && blocking { return Err(format!("thread {} makes blocking op {} while holding a future_sync future or a resumer", t, o)); }
                    if d.kind == Kind::FutSync && d.disp == Disp::Hold { open_fs.push(*o); }
                    if d.kind == Kind::Suspend && d.disp == Disp::Await { open_res.push(*o); }
                    if prog.pool == 0 && matches!(d.disp, Disp::PollDrop(_)) { return Err(format!("op {}: poll-then-drop with no pool thread", o)); }
                    if prog.pool == 0 && prog.threads.len() > 1 && prog.pipes.is_empty() && (matches!(d.disp, Disp::Await | Disp::Hold) || d.kind == Kind::FutSync || d.kind == Kind::Suspend) && !prog.hold_phase && prog.template != "suspend_with_sync_waiters" {
                        return Err(format!("op {}: awaiting with no pool thread and several contexts", o));
                    }
                }
                TAct::Join(o) => {
                    if open_fs.contains(o) { if open_fs.len() > 1 || !open_res.is_empty() { return Err(format!("thread {} joins future_sync {} while holding others", t, o)); } open_fs.retain(|x| x != o); }
                    else if nb_only { return Err(format!("thread {} joins {} inside a non-blocking window", t, o)); }
                }
                TAct::DropHeld(o) => { open_fs.retain(|x| x != o); }
                TAct::Resume(o, _) | TAct::HandResumer(o) => { open_res.retain(|x| x != o); }
                TAct::ReleaseMortal | TAct::PanicRelease => { if nb_only { return Err(format!("thread {} drops its owner inside a non-blocking window", t)); } released = true; }
                TAct::PipeCreate(_) | TAct::Consume(..) => { if nb_only { return Err("pipe act in non-blocking window".into()); } }
                TAct::DropStream(_) | TAct::Push(_) | TAct::Attempt(..) | TAct::AttemptJoin(_) | TAct::Stash(_) | TAct::WaitStart(_) | TAct::WaitRet(_) | TAct::WaitInv(_) | TAct::WaitResolved(_) | TAct::StashStream(_) | TAct::SetDepth(..) | TAct::Checkpoint | TAct::FireStashedWakers => {}
            }
        }
        if !open_fs.is_empty() || !open_res.is_empty() { return Err(format!("thread {} ends with open future_sync/resumer", t)); }
    }
    for d in &prog.ops {
        for s in &d.body {
            if let Step::Nest(c) = s {
                let cd = &prog.ops[*c];
                if Some(cd.obj) == prog.mortal { return Err(format!("nested op {} targets the mortal object", c)); }
                let blocking = cd.kind == Kind::Sync || matches!(cd.disp, Disp::Await | Disp::SyncWait);
                if blocking && cd.obj <= d.obj { return Err(format!("nested blocking op {} on object {} from object {}", c, cd.obj, d.obj)); }
                if cd.body.iter().any(|x| matches!(x, Step::Nest(_))) { return Err("nesting deeper than one level".into()); }
            }
        }
    }
    // every gate is fired
    let mut fired = vec![false; prog.n_gates];
    for g in &prog.prefired { fired[*g] = true; }
    for a in &prog.fire { if let FAct::Fire(g) = a { fired[*g] = true; } }
    if let Some(g) = fired.iter().position(|f| !*f) { return Err(format!("gate {} is never fired", g)); }
    Ok(())
}

pub fn generate(profile: &'static str, rng: &mut Rng, run_seed: u64, miri: bool) -> Program {
    let cfg = cfg_for(profile, miri);
    let r = rng.below(100);
    match profile {
        "C03" => if r < 45 { t_dormant(rng, profile, run_seed, miri) } else { mixed(rng, profile, &cfg, run_seed) },
        "C04" => if r < 35 { t_multisync(rng, profile, run_seed, miri) } else if r < 55 { t_holds(rng, profile, run_seed, miri, true) } else if r < 62 { t_stale_thread_waker(rng, profile, run_seed, miri) } else if r < 68 && !miri { t_nested_sync_in_stolen_queue(rng, profile, run_seed, miri) } else { mixed(rng, profile, &cfg, run_seed) },
        "C09" => if r < 22 { t_try_block(rng, profile, run_seed, miri) } else if r < 40 { t_try_hammer(rng, profile, run_seed, miri) } else if r < 50 { t_try_wake_window(rng, profile, run_seed, miri) } else if r < 58 { t_stale_thread_waker(rng, profile, run_seed, miri) } else if r < 68 { t_try_vs_cancel(rng, profile, run_seed, miri) } else { mixed(rng, profile, &cfg, run_seed) },
        "C10" => if r < 25 && !miri { t_raise(rng, profile, run_seed, miri) } else if r < 35 && !miri { t_despawn_while_blocked(rng, profile, run_seed, miri) } else { t_holds(rng, profile, run_seed, miri, false) },
        "C11" => if r < 12 { t_pipe_chain(rng, profile, run_seed, miri) } else { t_pipe(rng, profile, run_seed, miri, false, false) },
        "C12" => t_pipe(rng, profile, run_seed, miri, true, false),
        "C16" => t_pipe(rng, profile, run_seed, miri, true, true),
        "C05" => if r < 20 { t_pipe(rng, profile, run_seed, miri, false, false) } else if r < 35 { t_drop_held_future(rng, profile, run_seed, miri) } else { mixed(rng, profile, &cfg, run_seed) },
        "C14" if r >= 100 - (if miri { 40 } else { 12 }) => t_cancel_fs(rng, profile, run_seed, miri),
        "C08" if r >= 85 => t_cancel_fs(rng, profile, run_seed, miri),
        "C08" if r >= 73 => t_retain(rng, profile, run_seed, miri),
        "C01" if r >= 92 => t_cancel_fs(rng, profile, run_seed, miri),
        "C14" => if r < 10 { t_pipe(rng, profile, run_seed, miri, true, false) } else if r < 20 { t_pipe(rng, profile, run_seed, miri, false, false) } else if r < 30 { t_holds(rng, profile, run_seed, miri, true) } else if r < 42 { t_try_wake_window(rng, profile, run_seed, miri) } else if r < 52 { t_stale_thread_waker(rng, profile, run_seed, miri) } else if r < 58 { t_retain(rng, profile, run_seed, miri) } else if r < 60 { t_drop_held_future(rng, profile, run_seed, miri) } else if r < 66 && !miri { t_nested_sync_in_stolen_queue(rng, profile, run_seed, miri) } else { mixed(rng, profile, &cfg, run_seed) },
        "C01" => if r < 8 { t_pipe(rng, profile, run_seed, miri, false, false) } else if r < 16 { t_pipe(rng, profile, run_seed, miri, true, false) } else if r < 24 { t_try_wake_window(rng, profile, run_seed, miri) } else if r < 30 { t_stale_thread_waker(rng, profile, run_seed, miri) } else if r < 36 { t_retain(rng, profile, run_seed, miri) } else { mixed(rng, profile, &cfg, run_seed) },
        "C06" if r < 8 => t_stale_thread_waker(rng, profile, run_seed, miri),
        "C13" => if r < 30 { t_suspend_waiters(rng, profile, run_seed, miri) } else { mixed(rng, profile, &cfg, run_seed) },
        _ => mixed(rng, profile, &cfg, run_seed),
    }
}
