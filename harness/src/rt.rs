//! Small runtime pieces shared by everything: logical clock, PRNG, nestable block_on, JSON output

use std::cell::Cell;
use std::future::Future;
use std::pin::Pin;
use std::sync::atomic::{AtomicBool, AtomicU64, Ordering};
use std::sync::Arc;
use std::task::{Context, Poll, Wake, Waker};
use std::thread::{self, Thread};

/// Ordering used by the monitors. In the race-detecting engines (Miri, TSan) the monitors must not add
/// happens-before edges between the threads they observe, so everything is Relaxed there.
#[cfg(feature = "relaxed")]
pub const ORD: Ordering = Ordering::Relaxed;
#[cfg(not(feature = "relaxed"))]
pub const ORD: Ordering = Ordering::SeqCst;

static CLOCK: AtomicU64 = AtomicU64::new(1);

/// One global logical clock; every stamp in a history comes from here
#[inline]
pub fn clock() -> u64 {
    CLOCK.fetch_add(1, ORD)
}

// ---------------------------------------------------------------------------------------------
// PRNG (splitmix64 / xorshift), deterministic from a seed

#[derive(Clone)]
pub struct Rng(pub u64);

pub fn mix(mut z: u64) -> u64 {
    z = z.wrapping_add(0x9E3779B97F4A7C15);
    z = (z ^ (z >> 30)).wrapping_mul(0xBF58476D1CE4E5B9);
    z = (z ^ (z >> 27)).wrapping_mul(0x94D049BB133111EB);
    z ^ (z >> 31)
}

impl Rng {
    pub fn new(seed: u64) -> Rng { Rng(mix(seed ^ 0xD1B54A32D192ED03)) }
    #[inline]
    pub fn next(&mut self) -> u64 { self.0 = self.0.wrapping_add(0x9E3779B97F4A7C15); mix(self.0) }
    /// uniform in 0..n (n > 0)
    #[inline]
    pub fn below(&mut self, n: u64) -> u64 { self.next() % n }
    #[inline]
    pub fn range(&mut self, lo: u64, hi_incl: u64) -> u64 { lo + self.below(hi_incl - lo + 1) }
    #[inline]
    pub fn chance(&mut self, num: u64, den: u64) -> bool { self.below(den) < num }
    pub fn pick<'a, T>(&mut self, items: &'a [T]) -> &'a T { &items[self.below(items.len() as u64) as usize] }
    /// Picks an index according to integer weights
    pub fn weighted(&mut self, weights: &[u32]) -> usize {
        let total: u64 = weights.iter().map(|w| *w as u64).sum();
        debug_assert!(total > 0);
        let mut x = self.below(total);
        for (i, w) in weights.iter().enumerate() {
            if x < *w as u64 { return i; }
            x -= *w as u64;
        }
        weights.len() - 1
    }
    pub fn shuffle<T>(&mut self, items: &mut [T]) {
        for i in (1..items.len()).rev() {
            let j = self.below(i as u64 + 1) as usize;
            items.swap(i, j);
        }
    }
}

/// FNV-style hash combiner used for signatures
#[inline]
pub fn hcomb(h: u64, v: u64) -> u64 { mix(h ^ v.wrapping_mul(0x100000001B3)) }

// ---------------------------------------------------------------------------------------------
// Nestable park-based block_on (futures::executor::block_on panics when entered recursively, which
// happens legitimately when a polling task drains a queue whose job awaits another object)

struct ParkWaker { thread: Thread, woken: AtomicBool, wakes: AtomicU64 }

impl Wake for ParkWaker {
    fn wake(self: Arc<Self>) { self.wake_by_ref() }
    fn wake_by_ref(self: &Arc<Self>) {
        self.wakes.fetch_add(1, Ordering::Relaxed);
        self.woken.store(true, Ordering::SeqCst);
        self.thread.unpark();
    }
}

/// The waker handed to polled futures: like `Waker::from(Arc<ParkWaker>)`, except that cloning it is a point at which the noise plan
/// may inject a delay (the crate clones the caller's waker in the middle of its own state changes; a user's waker may be slow to clone)
fn park_waker(pw: &Arc<ParkWaker>) -> Waker {
    use std::task::{RawWaker, RawWakerVTable};
    unsafe fn w_clone(p: *const ()) -> RawWaker { crate::noise::user_point(); Arc::increment_strong_count(p as *const ParkWaker); RawWaker::new(p, &VTABLE) }
    unsafe fn w_wake(p: *const ()) { let a = Arc::from_raw(p as *const ParkWaker); Wake::wake_by_ref(&a); }
    unsafe fn w_wake_by_ref(p: *const ()) { let a = std::mem::ManuallyDrop::new(Arc::from_raw(p as *const ParkWaker)); Wake::wake_by_ref(&*a); }
    unsafe fn w_drop(p: *const ()) { std::mem::drop(Arc::from_raw(p as *const ParkWaker)); }
    static VTABLE: RawWakerVTable = RawWakerVTable::new(w_clone, w_wake, w_wake_by_ref, w_drop);
    unsafe { Waker::from_raw(RawWaker::new(Arc::into_raw(Arc::clone(pw)) as *const (), &VTABLE)) }
}

thread_local! {
    /// Number of times block_on on this thread returned Pending from a poll (i.e. had to park)
    pub static PARKS: Cell<u64> = const { Cell::new(0) };
    /// Number of block_on calls made on this thread (selects the waker discipline of the next one)
    pub static BLOCK_ONS: Cell<u64> = const { Cell::new(0) };
}

/// Polls `fut` to completion on the calling thread, parking between polls.
/// `on_pending` is called after every poll that returned Pending (before parking).
pub fn block_on_with<F: Future + ?Sized>(mut fut: Pin<&mut F>, mut on_pending: impl FnMut(u32)) -> F::Output {
    // Every third call on a thread awaits like a task whose waker changes from poll to poll and that is also polled for other
    // reasons: each poll supplies a fresh waker, a Pending poll is followed at once by a second poll (again with a new waker), and
    // only a wake of the LATEST waker counts - a future that keeps calling an older one leaves this thread asleep.
    let changing = BLOCK_ONS.with(|c| { let v = c.get(); c.set(v + 1); v % 3 == 2 });
    let fresh = || Arc::new(ParkWaker { thread: thread::current(), woken: AtomicBool::new(false), wakes: AtomicU64::new(0) });
    let mut pw  = fresh();
    let mut n   = 0u32;
    loop {
        {
            let waker   = park_waker(&pw);
            let mut cx  = Context::from_waker(&waker);
            if let Poll::Ready(v) = fut.as_mut().poll(&mut cx) { return v; }
        }
        if changing {
            pw = fresh();
            let waker   = park_waker(&pw);
            let mut cx  = Context::from_waker(&waker);
            if let Poll::Ready(v) = fut.as_mut().poll(&mut cx) { return v; }
        }
        n += 1;
        on_pending(n);
        PARKS.with(|p| p.set(p.get() + 1));
        while !pw.woken.swap(false, Ordering::SeqCst) {
            thread::park();
        }
        if changing { pw = fresh(); }
    }
}

pub fn block_on<F: Future>(fut: F) -> F::Output {
    let mut fut = Box::pin(fut);
    block_on_with(fut.as_mut(), |_| {})
}

/// A waker that only counts how often it was woken (for futures that are polled a few times and then dropped)
pub struct CountWaker(pub AtomicU64);
impl Wake for CountWaker {
    fn wake(self: Arc<Self>) { self.0.fetch_add(1, Ordering::Relaxed); }
    fn wake_by_ref(self: &Arc<Self>) { self.0.fetch_add(1, Ordering::Relaxed); }
}

// ---------------------------------------------------------------------------------------------
// Minimal JSON writer

pub struct Json { pub s: String, need_comma: Vec<bool> }

impl Json {
    pub fn new() -> Json { Json { s: String::new(), need_comma: vec![false] } }
    fn sep(&mut self) {
        if let Some(last) = self.need_comma.last_mut() {
            if *last { self.s.push(','); }
            *last = true;
        }
    }
    pub fn key(&mut self, k: &str) -> &mut Self {
        self.sep();
        self.s.push('"'); self.s.push_str(k); self.s.push_str("\":");
        if let Some(last) = self.need_comma.last_mut() { *last = false; }
        self
    }
    pub fn obj(&mut self) -> &mut Self { self.sep(); self.s.push('{'); self.need_comma.push(false); self }
    pub fn end_obj(&mut self) -> &mut Self { self.need_comma.pop(); self.s.push('}'); self }
    pub fn arr(&mut self) -> &mut Self { self.sep(); self.s.push('['); self.need_comma.push(false); self }
    pub fn end_arr(&mut self) -> &mut Self { self.need_comma.pop(); self.s.push(']'); self }
    pub fn num<T: std::fmt::Display>(&mut self, v: T) -> &mut Self { self.sep(); self.s.push_str(&v.to_string()); self }
    pub fn boolean(&mut self, v: bool) -> &mut Self { self.sep(); self.s.push_str(if v { "true" } else { "false" }); self }
    pub fn raw(&mut self, v: &str) -> &mut Self { self.sep(); self.s.push_str(v); self }
    pub fn string(&mut self, v: &str) -> &mut Self {
        self.sep();
        self.s.push('"');
        for c in v.chars() {
            match c {
                '"'  => self.s.push_str("\\\""),
                '\\' => self.s.push_str("\\\\"),
                '\n' => self.s.push_str("\\n"),
                '\r' => self.s.push_str("\\r"),
                '\t' => self.s.push_str("\\t"),
                c if (c as u32) < 0x20 => self.s.push_str(&format!("\\u{:04x}", c as u32)),
                c => self.s.push(c)
            }
        }
        self.s.push('"');
        self
    }
    pub fn kv_num<T: std::fmt::Display>(&mut self, k: &str, v: T) -> &mut Self { self.key(k); self.num(v) }
    pub fn kv_str(&mut self, k: &str, v: &str) -> &mut Self { self.key(k); self.string(v) }
    pub fn kv_bool(&mut self, k: &str, v: bool) -> &mut Self { self.key(k); self.boolean(v) }
}
