//! dh: runtime-monitoring harness for the desync crate (see /verif/DESIGN.md)

mod rt;
mod model;
mod noise;
mod quiesce;
mod exec;
mod pipes;
mod oracle;
mod gen;
mod run;
mod special;

use std::collections::{BTreeMap, HashSet};
use std::time::Instant;

use rt::*;

struct Args {
    profile: String, seed: u64, max_runs: u64, budget_ms: u64, noise: String, out: Option<String>, miri: bool, only_run: Option<u64>, verbose: bool, watchdog_s: u64,
    list_targets: bool, target: Option<String>,
    /// "<property>|<signature glob>" of findings that are already listed (known_findings.json): recorded once, never counted towards the limit
    known: Vec<String>,
}

fn parse_args() -> Args {
    let mut a = Args { profile: "C01".into(), seed: 1, max_runs: u64::MAX, budget_ms: 5_000, noise: "mix".into(), out: None, miri: cfg!(miri), only_run: None, verbose: false,
                       watchdog_s: 60, list_targets: false, target: None, known: vec![] };
    let v: Vec<String> = std::env::args().collect();
    let mut i = 1;
    while i < v.len() {
        let val = |i: usize| v.get(i + 1).cloned().unwrap_or_default();
        match v[i].as_str() {
            "--profile" => { a.profile = val(i); i += 1; }
            "--seed" => { a.seed = val(i).parse().expect("seed"); i += 1; }
            "--runs" => { a.max_runs = val(i).parse().expect("runs"); i += 1; }
            "--budget-ms" => { a.budget_ms = val(i).parse().expect("budget"); i += 1; }
            "--noise" => { a.noise = val(i); i += 1; }
            "--out" => { a.out = Some(val(i)); i += 1; }
            "--only-run" => { a.only_run = Some(val(i).parse().expect("only-run")); i += 1; }
            "--watchdog-s" => { a.watchdog_s = val(i).parse().expect("watchdog"); i += 1; }
            "--target" => { a.target = Some(val(i)); i += 1; }
            "--known" => { a.known.push(val(i)); i += 1; }
            "--miri" => a.miri = true,
            "--verbose" => a.verbose = true,
            "--list-targets" => a.list_targets = true,
            other => { eprintln!("unknown argument {}", other); std::process::exit(2); }
        }
        i += 1;
    }
    a
}

fn static_profile(p: &str) -> &'static str {
    const ALL: [&str; 17] = ["C01", "C02", "C03", "C04", "C05", "C06", "C07", "C08", "C09", "C10", "C11", "C12", "C13", "C14", "C15", "C16", "C17"];
    for x in ALL { if x.eq_ignore_ascii_case(p) { return x; } }
    eprintln!("unknown profile {}", p); std::process::exit(2);
}

pub struct Agg {
    pub evaluations: u64, pub completed: u64, pub stuck: u64, pub inconclusive: u64,
    pub nontrivial: HashSet<u64>, pub nontrivial_runs: u64,
    pub by_kind: BTreeMap<String, u64>, pub by_runner: BTreeMap<String, u64>, pub by_template: BTreeMap<String, u64>, pub by_pool: BTreeMap<String, u64>,
    pub by_plan: BTreeMap<String, u64>, pub wake_classes: BTreeMap<String, u64>, pub other: BTreeMap<String, u64>,
    pub violations: Vec<String>, pub foreign: BTreeMap<String, u64>, pub samples: Vec<String>, pub inconclusive_notes: Vec<String>,
    pub ordered_pairs: u64, pub pool_peak: usize,
    pub unlisted: usize, pub listed_seen: HashSet<String>,
}

impl Agg {
    fn new() -> Agg {
        Agg { evaluations: 0, completed: 0, stuck: 0, inconclusive: 0, nontrivial: HashSet::new(), nontrivial_runs: 0, by_kind: BTreeMap::new(), by_runner: BTreeMap::new(),
              by_template: BTreeMap::new(), by_pool: BTreeMap::new(), by_plan: BTreeMap::new(), wake_classes: BTreeMap::new(), other: BTreeMap::new(), violations: vec![],
              foreign: BTreeMap::new(), samples: vec![], inconclusive_notes: vec![], ordered_pairs: 0, pool_peak: 0, unlisted: 0, listed_seen: HashSet::new() }
    }
    pub fn bump(m: &mut BTreeMap<String, u64>, k: &str, n: u64) { *m.entry(k.to_string()).or_insert(0) += n; }
}

fn plan_family(p: &noise::Plan) -> &'static str {
    match p { noise::Plan::Off => "off", noise::Plan::None => "none", noise::Plan::Uniform { .. } => "uniform", noise::Plan::Targeted { .. } => "targeted", noise::Plan::OneBig { .. } => "onebig" }
}

fn run_json(res: &run::RunResult, run_idx: u64, with_history: bool) -> String {
    let mut j = Json::new();
    j.obj();
    j.kv_num("run_index", run_idx).kv_str("noise_plan", &res.plan.describe()).kv_str("outcome", &format!("{:?}", res.outcome));
    j.key("program"); res.ctx.prog.to_json(&mut j);
    if with_history { j.key("history"); oracle::history_json(&res.ctx, &mut j); if !res.ctx.pipes.is_empty() { j.key("pipes"); oracle::pipes_json(&res.ctx, &mut j); } }
    j.key("diagnosis").arr(); for d in &res.diag { j.string(d); } j.end_arr();
    j.end_obj();
    j.s
}

/// Glob with `*` only
fn glob_match(pat: &str, text: &str) -> bool {
    let parts: Vec<&str> = pat.split('*').collect();
    if parts.len() == 1 { return pat == text; }
    let mut pos = 0usize;
    for (i, part) in parts.iter().enumerate() {
        if part.is_empty() { continue; }
        if i == 0 { if !text.starts_with(part) { return false; } pos = part.len(); continue; }
        match text[pos..].find(part) { Some(at) => pos += at + part.len(), None => return false }
    }
    let last = parts.last().unwrap();
    last.is_empty() || text.ends_with(last)
}

fn absorb(agg: &mut Agg, res: &run::RunResult, own: &str, run_idx: u64, args: &Args) {
    use std::sync::atomic::Ordering::Relaxed;
    let ctx = &res.ctx;
    agg.evaluations += 1;
    match &res.outcome {
        run::Outcome::Completed => agg.completed += 1,
        run::Outcome::Stuck => agg.stuck += 1,
        run::Outcome::Inconclusive(n) => { agg.inconclusive += 1; if agg.inconclusive_notes.len() < 5 { agg.inconclusive_notes.push(format!("run {}: {}", run_idx, n)); } }
    }
    Agg::bump(&mut agg.by_template, ctx.prog.template, 1);
    Agg::bump(&mut agg.by_pool, &format!("pool{}_{:?}", ctx.prog.pool, ctx.prog.pool_mode), 1);
    Agg::bump(&mut agg.by_plan, plan_family(&res.plan), 1);
    for (i, d) in ctx.prog.ops.iter().enumerate() {
        let r = &ctx.recs[i];
        if r.inv.load(Relaxed) == 0 && r.start.load(Relaxed) == 0 { continue; }
        Agg::bump(&mut agg.by_kind, &format!("{}:{}", d.kind.name(), d.disp.name()), 1);
        if r.start.load(Relaxed) != 0 {
            let rc = match r.runner.load(Relaxed) { 1 => "pool_thread", 2 => "caller_thread", 3 => "firer_thread", 4 => "closing_helper", _ => "other" };
            let same = r.run_tid.load(Relaxed) == r.call_tid.load(Relaxed);
            Agg::bump(&mut agg.by_runner, &format!("{}:{}{}", d.kind.name(), rc, if d.kind == model::Kind::Sync && !same { "(not the caller)" } else { "" }), 1);
        }
        match r.outcome.load(Relaxed) { 2 => Agg::bump(&mut agg.other, "try_sync_busy", 1), 3 => Agg::bump(&mut agg.other, "future_cancelled_mid_operation", 1), 5 => Agg::bump(&mut agg.other, "expected_panics", 1), _ => {} }
        if r.pendings.load(Relaxed) > 0 { Agg::bump(&mut agg.other, "operations_suspended_at_least_once", 1); }
        if r.via_raw.load(Relaxed) { Agg::bump(&mut agg.other, &format!("issued_through_scheduler_level_api:{}", d.kind.name()), 1); }
    }
    let du = ctx.dropped_unwinding.load(Relaxed) as u64;
    if du > 0 { Agg::bump(&mut agg.other, "panicked_object_dropped_by_unwinding_thread", du); }
    for (kind, _obj, loud) in ctx.attempts.lock().unwrap().iter() {
        Agg::bump(&mut agg.other, &format!("attempt_on_panicked_object:{}:{}", exec::ATTEMPT_NAMES[*kind as usize], if *loud { "failed_loudly" } else { "quiet" }), 1);
    }
    for (i, c) in ctx.wake_classes.iter().enumerate() {
        let n = c.load(Relaxed) as u64;
        if n > 0 {
            let rc = match i % 6 { 0 => "not_started", 1 => "pool_thread", 2 => "caller_thread", 3 => "firer", 4 => "helper", _ => "other" };
            Agg::bump(&mut agg.wake_classes, &format!("queue_{}_when_woken/op_last_ran_on_{}", exec::WAKE_STATES[i / 6], rc), n);
        }
    }
    agg.ordered_pairs += res.stats.ordered_pairs;
    agg.pool_peak = agg.pool_peak.max(res.stats.pool_peak);
    let own_bit = own[1..].parse::<u32>().map(|n| 1u32 << (n - 1)).unwrap_or(0);
    if res.stats.nontrivial & own_bit != 0 {
        agg.nontrivial_runs += 1;
        if agg.nontrivial.len() < 200_000 { agg.nontrivial.insert(hcomb(ctx.prog.shape_hash(), res.stats.signature)); }
        if agg.samples.len() < 2 { agg.samples.push(run_json(res, run_idx, true)); }
    }
    // one violation entry per (property, signature) of this run
    let mut seen = HashSet::new();
    for v in &res.violations {
        if !seen.insert((v.prop, v.sig.clone())) { continue; }
        let listed = args.known.iter().any(|k| glob_match(k, &format!("{}|{}", v.prop, v.sig)));
        if listed && !agg.listed_seen.insert(format!("{}|{}", v.prop, v.sig)) { continue; }
        if !listed { agg.unlisted += 1; }
        if v.prop != own { Agg::bump(&mut agg.foreign, &format!("{}:{}", v.prop, v.kind), 1); }
        let mut j = Json::new();
        j.obj();
        j.kv_str("property", v.prop).kv_str("kind", &v.kind).kv_str("signature", &v.sig).kv_str("detail", &v.detail);
        j.kv_str("profile", &args.profile).kv_num("seed", args.seed).kv_num("run_index", run_idx).kv_str("noise_family", &args.noise).kv_bool("miri", args.miri);
        j.key("run").raw(&run_json(res, run_idx, true));
        j.end_obj();
        if agg.violations.len() < 40 || listed { agg.violations.push(j.s); }
        if args.verbose { eprintln!("VIOLATION-FOUND {} {} {} :: {}", v.prop, v.kind, v.sig, v.detail); }
    }
}

fn write_out(agg: &Agg, args: &Args, wall: f64, exit_reason: &str) {
    let mut j = Json::new();
    j.obj();
    j.kv_str("profile", &args.profile).kv_num("seed", args.seed).kv_str("noise_family", &args.noise).kv_bool("miri", args.miri).kv_str("exit_reason", exit_reason);
    j.kv_num("evaluations", agg.evaluations).kv_num("completed", agg.completed).kv_num("stuck", agg.stuck).kv_num("inconclusive", agg.inconclusive);
    j.kv_num("nontrivial_runs", agg.nontrivial_runs).kv_num("ordered_pairs_checked", agg.ordered_pairs).kv_num("pool_peak", agg.pool_peak).kv_num("wall_s", format!("{:.3}", wall));
    j.key("nontrivial_hashes").arr(); for h in agg.nontrivial.iter().take(50_000) { j.string(&format!("{:x}", h)); } j.end_arr();
    let maps: [(&str, &BTreeMap<String, u64>); 8] = [("ops_by_kind", &agg.by_kind), ("ops_by_runner", &agg.by_runner), ("templates", &agg.by_template), ("pools", &agg.by_pool),
        ("noise_plans", &agg.by_plan), ("wake_landings", &agg.wake_classes), ("other", &agg.other), ("foreign_violations", &agg.foreign)];
    for (name, m) in maps { j.key(name).obj(); for (k, v) in m.iter() { j.kv_num(k, *v); } j.end_obj(); }
    j.key("inconclusive_notes").arr(); for n in &agg.inconclusive_notes { j.string(n); } j.end_arr();
    j.key("violations").arr(); for v in &agg.violations { j.raw(v); } j.end_arr();
    j.key("samples").arr(); for s in &agg.samples { j.raw(s); } j.end_arr();
    j.key("noise_coverage").obj(); noise::coverage_json(&mut j); j.end_obj();
    j.end_obj();
    match &args.out {
        Some(p) if !cfg!(miri) => { std::fs::write(p, &j.s).expect("write output"); }
        _ => { println!("DHRESULT {}", j.s); }
    }
}

fn main() {
    let args = parse_args();
    let profile = static_profile(&args.profile);
    let native = !args.miri;
    run::install_panic_hook();
    // under Miri the hook only counts pool thread spawns/exits (no delays are injected there)
    if args.noise != "off" || !native { noise::install(); }
    run::set_monitor_thread();
    noise::exempt_this_thread(true);
    let opts = run::Opts { native, watchdog_s: args.watchdog_s, noise_family: args.noise.clone(), verbose: args.verbose };
    let t0 = Instant::now();
    let mut agg = Agg::new();
    let mut exit_reason = "budget";
    let mut idx = 0u64;
    let mut est_points = 200u64;

    while idx < args.max_runs {
        if let Some(only) = args.only_run { if idx > 0 { break; } idx = only; }
        if args.only_run.is_none() && idx > 0 && t0.elapsed().as_millis() as u64 >= args.budget_ms { break; }
        if args.miri { println!("DHRUN {}", idx); }
        let run_seed = mix(args.seed.wrapping_mul(0x9E3779B97F4A7C15) ^ idx.wrapping_mul(0xD6E8FEB86659FD93));
        let mut rng = Rng::new(run_seed);
        let res = if profile == "C15" || (profile == "C17" && rng.chance(1, 2)) {
            special::run_special(profile, &mut rng, run_seed, &opts, &args.noise, est_points)
        } else {
            let mut prog = gen::generate(profile, &mut rng, run_seed, args.miri);
            for i in 0..prog.ops.len() { let nest: Vec<usize> = prog.ops[i].body.iter().filter_map(|s| if let model::Step::Nest(c) = s { Some(*c) } else { None }).collect(); for c in nest { prog.ops[c].parent = Some(i); } }
            if let Err(e) = gen::validate(&prog) { eprintln!("GENERATOR BUG (run {}): {}", idx, e); std::process::exit(2); }
            let plan = if !native || args.noise == "off" { noise::Plan::Off } else if let Some(t) = &args.target { parse_target(t, &mut rng) } else { noise::choose_plan(&mut rng, &args.noise, est_points) };
            if args.verbose { let mut j = Json::new(); prog.to_json(&mut j); eprintln!("RUN {} plan {:?} program {}", idx, plan, j.s); }
            run::run_program(prog, &opts, plan)
        };
        absorb(&mut agg, &res, profile, idx, &args);
        if res.outcome == run::Outcome::Stuck { exit_reason = "stuck"; break; }
        if let run::Outcome::Inconclusive(_) = res.outcome { exit_reason = "inconclusive"; break; }
        if agg.unlisted >= 20 { exit_reason = "many_violations"; break; }
        est_points = (est_points * 7 + noise_points_estimate()) / 8;
        idx += 1;
    }
    if args.list_targets { for (site, kind, hits) in noise::known_targets() { println!("TARGET {:#x} {} {}", site, kind, hits); } }
    {
        use std::sync::atomic::Ordering::Relaxed;
        let (w, p) = (noise::SPURIOUS_WAITS.load(Relaxed), noise::SPURIOUS_PARKS.load(Relaxed));
        if w > 0 { Agg::bump(&mut agg.other, "spurious_wakeups_injected:condvar_wait", w); }
        if p > 0 { Agg::bump(&mut agg.other, "spurious_wakeups_injected:thread_park", p); }
    }
    write_out(&agg, &args, t0.elapsed().as_secs_f64(), exit_reason);
    if cfg!(miri) && exit_reason != "stuck" {
        // leave through the normal end of main so that the interpreter's leak check runs; it insists on all threads being gone
        let s = desync::scheduler::scheduler();
        s.set_max_threads(0);
        s.despawn_threads_if_overloaded();
        run::shutdown_workers();
        return;
    }
    // a stuck run leaves threads blocked forever inside the crate: do not try to join anything
    std::process::exit(if exit_reason == "stuck" { 3 } else { 0 });
}

fn noise_points_estimate() -> u64 { 300 }

fn parse_target(t: &str, rng: &mut Rng) -> noise::Plan {
    // site:kind[:every[:delay_us]]
    let f: Vec<&str> = t.split(':').collect();
    let site = u64::from_str_radix(f[0].trim_start_matches("0x"), 16).expect("site");
    let kind: u8 = f.get(1).and_then(|x| x.parse().ok()).unwrap_or(2);
    let every = f.get(2).and_then(|x| x.parse().ok()).unwrap_or(*rng.pick(&[1u32, 1, 2, 3]));
    let delay_us = f.get(3).and_then(|x| x.parse().ok()).unwrap_or(*rng.pick(&[50u32, 200, 800]));
    noise::Plan::Targeted { site, kind, every, delay_us }
}
