//! Noise (delay) injection at the hook points of the crate, and coverage of those points

use std::cell::Cell;
use std::sync::atomic::{AtomicU32, AtomicU64, AtomicUsize, Ordering::Relaxed};
use std::time::Duration;

use crate::rt::{mix, Json, Rng};

#[derive(Clone, Copy, Debug, PartialEq)]
pub enum Plan {
    /// Hook does nothing at all (not even counting)
    Off,
    /// Count sites only: pure stress
    None,
    /// At every delayable point, with probability ppm/1e6, delay up to max_us (yield, spin or sleep)
    Uniform { ppm: u32, max_us: u32 },
    /// Delay at one site and one position only
    Targeted { site: u64, kind: u8, every: u32, delay_us: u32 },
    /// One large delay at the n-th delayable point of the run (counted over all threads)
    OneBig { nth: u64, delay_us: u32 },
}

impl Plan {
    pub fn describe(&self) -> String {
        match self {
            Plan::Targeted { site, kind, every, delay_us } => format!("targeted(site={} kind={} every={} delay_us={})", site_name(*site), KIND_NAMES[*kind as usize], every, delay_us),
            other => format!("{:?}", other)
        }
    }
}

pub const KIND_NAMES: [&str; 15] = ["before_lock", "after_lock", "before_unlock", "after_unlock", "try_lock_failed", "before_wait", "after_wait",
    "before_notify", "after_notify", "before_park", "after_park", "before_unpark", "explicit", "pool_thread_spawn", "pool_thread_exit"];

/// Point kinds at which a delay may be injected: between critical sections, plus before_unlock (stretches a holder, which is
/// what exposes try_lock windows) - never after_lock (same effect as before_unlock) and not inside notify
const DELAYABLE: [bool; 15] = [true, false, true, true, true, true, true, true, true, true, true, true, true, true, true];

static MODE: AtomicU32      = AtomicU32::new(0);      // 0 off, 1 none, 2 uniform, 3 targeted, 4 onebig
static P_A: AtomicU64       = AtomicU64::new(0);
static P_B: AtomicU64       = AtomicU64::new(0);
static P_C: AtomicU64       = AtomicU64::new(0);
static P_D: AtomicU64       = AtomicU64::new(0);
static EPOCH: AtomicU64     = AtomicU64::new(0);      // run seed; per-thread PRNGs reseed when it changes
static POINTS: AtomicU64    = AtomicU64::new(0);      // delayable points seen in this run
static TARGET_HITS: AtomicU64 = AtomicU64::new(0);
pub static DELAYS: AtomicU64 = AtomicU64::new(0);     // total delays injected by this process
/// Spurious wake-ups: with this probability (parts per million) a condition-variable wait of the crate returns at once without a
/// notification, and a `thread::park()` of the crate finds an unpark token waiting. Both are allowed by std's contracts (every
/// caller has to re-check its predicate) and practically never happen by themselves on Linux.
static SPURIOUS_PPM: AtomicU64 = AtomicU64::new(0);
pub static SPURIOUS_WAITS: AtomicU64 = AtomicU64::new(0);
pub static SPURIOUS_PARKS: AtomicU64 = AtomicU64::new(0);

fn tl_random() -> Option<u64> {
    let epoch = EPOCH.load(Relaxed);
    TL_RNG.try_with(|c| {
        let (e, mut st) = c.get();
        if e != epoch || st == 0 { st = mix(epoch ^ (c as *const _ as u64)) | 1; }
        st = st.wrapping_add(0x9E3779B97F4A7C15);
        c.set((epoch, st));
        mix(st)
    }).ok()
}

fn spurious_now() -> bool {
    let ppm = SPURIOUS_PPM.load(Relaxed);
    if ppm == 0 || MODE.load(Relaxed) < 2 { return false; }
    if TL_EXEMPT.try_with(|e| e.get()).unwrap_or(true) { return false; }
    match tl_random() { Some(r) => (r >> 7) % 1_000_000 < ppm, None => false }
}

#[cfg(feature = "hooks")]
fn spurious_wait_hook(_loc: &'static std::panic::Location<'static>) -> bool {
    let yes = spurious_now();
    if yes { SPURIOUS_WAITS.fetch_add(1, Relaxed); }
    yes
}

const SLOTS: usize = 4096;
struct Slot { key: AtomicU64, loc: AtomicUsize, hits: AtomicU64, delays: AtomicU64 }
#[allow(clippy::declare_interior_mutable_const)]
const EMPTY: Slot = Slot { key: AtomicU64::new(0), loc: AtomicUsize::new(0), hits: AtomicU64::new(0), delays: AtomicU64::new(0) };
static TABLE: [Slot; SLOTS] = [EMPTY; SLOTS];

thread_local! {
    static TL_RNG: Cell<(u64, u64)> = const { Cell::new((0, 0)) };   // (epoch, state)
    static TL_EXEMPT: Cell<bool> = const { Cell::new(false) };
}

/// The calling thread is never delayed (monitor thread)
pub fn exempt_this_thread(on: bool) { let _ = TL_EXEMPT.try_with(|e| e.set(on)); }

pub fn site_id(file: &str, line: u32) -> u64 {
    // only the path below src/ so that the id does not depend on where the repository is checked out
    let tail = match file.rfind("src/") { Some(i) => &file[i..], None => file };
    let mut h = 0xcbf29ce484222325u64;
    for b in tail.as_bytes() { h = (h ^ *b as u64).wrapping_mul(0x100000001b3); }
    (mix(h ^ ((line as u64) << 40)) | 1) & !0xf
}

fn slot_for(key: u64, loc: usize) -> &'static Slot {
    let mut i = (key >> 4) as usize % SLOTS;
    loop {
        let s = &TABLE[i];
        let k = s.key.load(Relaxed);
        if k == key { return s; }
        if k == 0 {
            match s.key.compare_exchange(0, key, Relaxed, Relaxed) {
                Ok(_) => { s.loc.store(loc, Relaxed); return s; }
                Err(k2) if k2 == key => return s,
                Err(_) => {}
            }
        }
        i = (i + 1) % SLOTS;
    }
}

fn site_name(site: u64) -> String {
    for s in TABLE.iter() {
        let k = s.key.load(Relaxed);
        if k != 0 && (k & !0xf) == site {
            let loc = s.loc.load(Relaxed);
            if loc != 0 {
                let loc: &'static std::panic::Location<'static> = unsafe { &*(loc as *const std::panic::Location<'static>) };
                let f = loc.file();
                let tail = match f.rfind("src/") { Some(i) => &f[i..], None => f };
                return format!("{}:{}", tail, loc.line());
            }
        }
    }
    format!("{:#x}", site)
}

fn do_delay(us: u64) {
    DELAYS.fetch_add(1, Relaxed);
    if us == 0 {
        std::thread::yield_now();
    } else if us <= 30 {
        let t = std::time::Instant::now();
        while (t.elapsed().as_micros() as u64) < us { std::hint::spin_loop(); }
    } else {
        std::thread::sleep(Duration::from_micros(us));
    }
}

#[cfg(feature = "hooks")]
fn hook(kind: desync::verif::PointKind, loc: &'static std::panic::Location<'static>) {
    let kind = kind as u8;
    if kind == 13 { crate::run::on_spawn_event(); }
    if kind == 14 { crate::run::on_exit_event(); }
    // before_park: leave an unpark token for the calling thread, so that the park returns although nobody woke it
    if kind == 9 && spurious_now() { SPURIOUS_PARKS.fetch_add(1, Relaxed); std::thread::current().unpark(); }
    point_core(kind, loc);
}

/// A point in the harness's own "user code" that the crate calls back into (cloning a waker it was given): user code may take any
/// amount of time there, so it is a place where the active plan may inject a delay like at the crate's own points
#[track_caller]
pub fn user_point() { point_core(12, std::panic::Location::caller()); }

fn point_core(kind: u8, loc: &'static std::panic::Location<'static>) {
    let mode = MODE.load(Relaxed);
    if mode == 0 { return; }
    let site = site_id(loc.file(), loc.line());
    let slot = slot_for(site | kind as u64, loc as *const _ as usize);
    slot.hits.fetch_add(1, Relaxed);
    if mode == 1 || !DELAYABLE[kind as usize] { return; }
    if TL_EXEMPT.try_with(|e| e.get()).unwrap_or(true) { return; }

    match mode {
        2 => {
            let epoch = EPOCH.load(Relaxed);
            let r = TL_RNG.try_with(|c| {
                let (e, mut st) = c.get();
                if e != epoch || st == 0 { st = mix(epoch ^ (c as *const _ as u64)) | 1; }
                st = st.wrapping_add(0x9E3779B97F4A7C15);
                c.set((epoch, st));
                mix(st)
            });
            if let Ok(r) = r {
                let ppm = P_A.load(Relaxed);
                if r % 1_000_000 < ppm {
                    let max_us = P_B.load(Relaxed);
                    let x = (r >> 24) % 100;
                    let us = if x < 30 { 0 } else if x < 75 { 1 + (r >> 32) % 20 } else { 20 + (r >> 32) % max_us.max(21) };
                    slot.delays.fetch_add(1, Relaxed);
                    do_delay(us);
                }
            }
        }
        3 => {
            if site == P_A.load(Relaxed) && kind as u64 == P_B.load(Relaxed) {
                let n = TARGET_HITS.fetch_add(1, Relaxed);
                if n % P_C.load(Relaxed).max(1) == 0 {
                    slot.delays.fetch_add(1, Relaxed);
                    do_delay(P_D.load(Relaxed));
                }
            }
        }
        4 => {
            let n = POINTS.fetch_add(1, Relaxed);
            if n == P_A.load(Relaxed) {
                slot.delays.fetch_add(1, Relaxed);
                do_delay(P_B.load(Relaxed));
            }
        }
        _ => {}
    }
}

pub fn install() {
    #[cfg(feature = "hooks")]
    { desync::verif::set_hook(Some(hook)); desync::verif::set_spurious_wait_hook(Some(spurious_wait_hook)); }
}

/// Number of delayable points seen since the plan was set (used to size one-big plans)
pub fn points_seen() -> u64 { POINTS.load(Relaxed) }

pub fn set_plan(plan: Plan, run_seed: u64) {
    MODE.store(0, Relaxed);
    EPOCH.store(run_seed, Relaxed);
    POINTS.store(0, Relaxed);
    TARGET_HITS.store(0, Relaxed);
    // a third of the runs that inject delays also inject spurious wake-ups (15 % of the waits and parks)
    SPURIOUS_PPM.store(if !matches!(plan, Plan::Off | Plan::None) && mix(run_seed ^ 0x5b5b_1dea) % 3 == 0 && std::env::var_os("DH_NO_SPURIOUS").is_none() { 150_000 } else { 0 }, Relaxed);
    match plan {
        Plan::Off => {}
        Plan::None => MODE.store(1, Relaxed),
        Plan::Uniform { ppm, max_us } => { P_A.store(ppm as u64, Relaxed); P_B.store(max_us as u64, Relaxed); MODE.store(2, Relaxed); }
        Plan::Targeted { site, kind, every, delay_us } => {
            P_A.store(site, Relaxed); P_B.store(kind as u64, Relaxed); P_C.store(every as u64, Relaxed); P_D.store(delay_us as u64, Relaxed);
            MODE.store(3, Relaxed);
        }
        Plan::OneBig { nth, delay_us } => { P_A.store(nth, Relaxed); P_B.store(delay_us as u64, Relaxed); MODE.store(4, Relaxed); }
    }
}

/// All (site, kind) pairs seen so far that can be delayed, most frequently hit first
pub fn known_targets() -> Vec<(u64, u8, u64)> {
    let mut v = vec![];
    for s in TABLE.iter() {
        let k = s.key.load(Relaxed);
        if k != 0 {
            let kind = (k & 0xf) as u8;
            if DELAYABLE[kind as usize] && kind < 13 { v.push((k & !0xf, kind, s.hits.load(Relaxed))); }
        }
    }
    v.sort_by(|a, b| (a.0, a.1).cmp(&(b.0, b.1)));
    v
}

/// Picks a plan for one run
pub fn choose_plan(rng: &mut Rng, family: &str, est_points: u64) -> Plan {
    let pick = match family {
        "none"      => 0,
        "uniform"   => 1,
        "targeted"  => 2,
        "onebig"    => 3,
        // mix: mostly perturbed, a share of pure stress
        _           => rng.weighted(&[2, 4, 3, 2]),
    };
    match pick {
        0 => Plan::None,
        1 => Plan::Uniform { ppm: *rng.pick(&[5_000u32, 20_000, 60_000, 150_000]), max_us: *rng.pick(&[60u32, 200, 500]) },
        2 => {
            let targets = known_targets();
            if targets.is_empty() { return Plan::Uniform { ppm: 30_000, max_us: 200 }; }
            let (site, kind, _) = targets[rng.below(targets.len() as u64) as usize];
            Plan::Targeted { site, kind, every: *rng.pick(&[1u32, 1, 2, 3, 7]), delay_us: *rng.pick(&[30u32, 100, 300, 1000]) }
        }
        _ => Plan::OneBig { nth: rng.below(est_points.max(8)), delay_us: *rng.pick(&[300u32, 1000, 3000]) },
    }
}

pub fn coverage_json(j: &mut Json) {
    let mut sites = 0u64; let mut pairs = 0u64; let mut delayed_pairs = 0u64;
    let mut seen_sites = std::collections::BTreeSet::new();
    j.key("points").arr();
    for s in TABLE.iter() {
        let k = s.key.load(Relaxed);
        if k == 0 { continue; }
        pairs += 1;
        if seen_sites.insert(k & !0xf) { sites += 1; }
        let d = s.delays.load(Relaxed);
        if d > 0 { delayed_pairs += 1; }
        j.obj();
        j.kv_str("site", &site_name(k & !0xf)).kv_str("pos", KIND_NAMES[(k & 0xf) as usize]).kv_num("hits", s.hits.load(Relaxed)).kv_num("delays", d);
        j.end_obj();
    }
    j.end_arr();
    j.kv_num("sites", sites).kv_num("site_positions", pairs).kv_num("site_positions_delayed", delayed_pairs).kv_num("delays_total", DELAYS.load(Relaxed));
}
