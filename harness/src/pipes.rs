//! Pipe workloads: scripted input streams, processing closures with drop canaries, consumers

use std::pin::Pin;
use std::sync::atomic::Ordering;
use std::sync::Arc;
use std::task::{Context, Poll};

use futures::future::BoxFuture;
use futures::stream::Stream;
use futures::{FutureExt, StreamExt};

use crate::exec::*;
use crate::model::*;
use crate::rt::*;

pub const PIPE_BASE: usize = 1_000_000;

/// A conformant input stream whose items arrive when the firer pushes them
pub struct ScriptStream { ctx: Arc<RunCtx>, p: usize, inner: Option<futures::channel::mpsc::UnboundedReceiver<OpId>>, wakes_left: usize }

impl Stream for ScriptStream {
    type Item = OpId;

    fn poll_next(mut self: Pin<&mut Self>, cx: &mut Context<'_>) -> Poll<Option<OpId>> {
        let ctx = Arc::clone(&self.ctx);
        let p = self.p;
        if self.wakes_left > 0 {
            // "not ready yet, ask again": wake the task from inside the poll and return Pending
            self.wakes_left -= 1;
            { let mut c = ctx.pipes[p].input.lock().unwrap(); c.polls += 1; c.pending_polls += 1; }
            cx.waker().wake_by_ref();
            return Poll::Pending;
        }
        let r = if let Some(inner) = self.inner.as_mut() {
            let r = inner.poll_next_unpin(cx);
            let mut c = ctx.pipes[p].input.lock().unwrap();
            c.polls += 1;
            if r.is_pending() { c.pending_polls += 1; }
            r
        } else {
            let mut c = ctx.pipes[p].input.lock().unwrap();
            c.polls += 1;
            if ctx.prog.pipes[p].register_first { c.waker = Some(cx.waker().clone()); }
            if let Some(op) = c.q.pop_front() { Poll::Ready(Some(op)) }
            else if c.closed { Poll::Ready(None) }
            else { c.waker = Some(cx.waker().clone()); c.pending_polls += 1; Poll::Pending }
        };
        if let Poll::Ready(Some(op)) = r {
            // the stream has yielded this item: from now on it must be processed exactly once
            ctx.recs[op].accepted.store(true, ORD);
        }
        r
    }
}

impl Drop for ScriptStream {
    fn drop(&mut self) {
        self.ctx.pipes[self.p].input_drops.fetch_add(1, ORD);
        self.ctx.progress();
    }
}

struct ClosureCanary { ctx: Arc<RunCtx>, p: usize }
impl Drop for ClosureCanary {
    fn drop(&mut self) {
        self.ctx.pipes[self.p].closure_drops.fetch_add(1, ORD);
        if let Some(q) = self.ctx.prog.pipes[self.p].chain_to {
            if self.ctx.pipes[q].closed_stamp.load(ORD) == 0 { close_input(&self.ctx, q); }
        }
        self.ctx.progress();
    }
}

fn obj_of(ctx: &RunCtx, tls: &ThreadLocalState, obj: usize) -> Option<Arc<Obj>> {
    if ctx.prog.mortal == Some(obj) { tls.mortal.clone() } else { ctx.obj(obj) }
}

pub fn create(ctx: &Arc<RunCtx>, tls: &mut ThreadLocalState, p: usize) {
    let def = ctx.prog.pipes[p].clone();
    let d = match obj_of(ctx, tls, def.obj) { Some(d) => d, None => return };
    let st = &ctx.pipes[p];

    let inner = st.mpsc_rx.lock().unwrap().take();

    let stream  = ScriptStream { ctx: Arc::clone(ctx), p, inner, wakes_left: def.self_wakes };
    let canary  = ClosureCanary { ctx: Arc::clone(ctx), p };
    let c2      = Arc::clone(ctx);
    st.created.store(clock(), ORD);
    let _b = ctx.blocked(PIPE_BASE + p, PH_PIPECREATE);
    if def.through {
        let mut out = desync::pipe(d, stream, move |pl: &mut Payload, item: OpId| -> BoxFuture<'_, u64> {
            let _ = &canary;
            future_body(Arc::clone(&c2), item, pl)
        });
        out.set_backpressure_depth(def.depth);
        tls.streams.insert(p, out);
    } else {
        desync::pipe_in(d, stream, move |pl: &mut Payload, item: OpId| -> BoxFuture<'_, ()> {
            let _ = &canary;
            future_body(Arc::clone(&c2), item, pl).map(|_| ()).boxed()
        });
    }
}

pub fn consume(ctx: &Arc<RunCtx>, tls: &mut ThreadLocalState, p: usize, n: usize) {
    let st = &ctx.pipes[p];
    let items = &ctx.prog.pipes[p].items;
    let s = match tls.streams.get_mut(&p) { Some(s) => s, None => return };
    for _ in 0..n {
        if st.out_ended.load(ORD) { break; }
        let next = {
            let _b = ctx.blocked(PIPE_BASE + p, PH_CONSUME);
            let mut f = s.next();
            let r = block_on_with(Pin::new(&mut f), |_| { st.consumer_parks.fetch_add(1, ORD); st.consumer_waiting.store(true, ORD); ctx.note_for_firer(); });
            st.consumer_waiting.store(false, ORD);
            r
        };
        match next {
            Some(v) => {
                let mut outs = st.outputs.lock().unwrap();
                let k = outs.len();
                let expect = items.get(k).map(|op| ctx.token(*op));
                if expect != Some(v) {
                    let which = items.iter().position(|op| ctx.token(*op) == v);
                    ctx.report("C12", "pipe_output_out_of_sequence", "pipe_out_seq".into(),
                        format!("pipe {}: output #{} is the result of item {:?}, expected item #{}", p, k, which, k));
                } else if ctx.recs[items[k]].end.load(ORD) == 0 {
                    ctx.report("C12", "pipe_output_before_processing_finished", "pipe_out_early".into(), format!("pipe {}: output #{} delivered before its processing finished", p, k));
                }
                outs.push(v);
            }
            None => { st.out_ended.store(true, ORD); }
        }
    }
}

pub fn drop_stream(ctx: &Arc<RunCtx>, tls: &mut ThreadLocalState, p: usize) {
    let st = &ctx.pipes[p];
    let stream = tls.streams.remove(&p).or_else(|| ctx.stream_stash.lock().unwrap().remove(&p));
    if let Some(s) = stream {
        // classify what the producer is doing right now (C16): 1 idle, 2 mid-item, 3 throttled
        let def = &ctx.prog.pipes[p];
        let mid = def.items.iter().any(|op| ctx.recs[*op].start.load(ORD) != 0 && ctx.recs[*op].end.load(ORD) == 0);
        let produced = def.items.iter().filter(|op| ctx.recs[**op].end.load(ORD) != 0).count();
        let consumed = st.outputs.lock().unwrap().len();
        let class = if mid { 2 } else if produced - consumed.min(produced) >= st.cur_depth.load(ORD) as usize { 3 } else { 1 };
        st.drop_class.store(class, ORD);
        let _b = ctx.blocked(PIPE_BASE + p, PH_DROPSTREAM);
        if ctx.prog.panics {
            // (panic scenarios) letting go of a pipe's output stream is an operation like any other: on a healthy object it must work
            let r = std::panic::catch_unwind(std::panic::AssertUnwindSafe(move || std::mem::drop(s)));
            if r.is_err() && !crate::oracle::object_panicked(ctx, def.obj) {
                ctx.report("C15", "operation_on_healthy_object_panicked", "healthy_pipe_output_stream_drop_panicked".into(),
                    format!("dropping the output stream of pipe {} on healthy object {} panicked after another object had panicked", p, def.obj));
            }
        } else {
            std::mem::drop(s);
        }
        st.stream_dropped.store(clock(), ORD);
    }
}

pub fn push_item(ctx: &Arc<RunCtx>, p: usize) {
    let st = &ctx.pipes[p];
    // index allocation and insertion are one step (the stream order is the order of the item list). The lock used for that is
    // not the one the stream's poll_next takes: a wake-up issued from here can end up blocking until the target's queue has run.
    let _order = st.push_lock.lock().unwrap();
    let k = st.pushed.fetch_add(1, Ordering::SeqCst);
    let op = match ctx.prog.pipes[p].items.get(k) { Some(op) => *op, None => return };
    let rec = &ctx.recs[op];
    rec.call_tid.store(tid_hash(), ORD);
    rec.inv.store(clock(), ORD);
    if ctx.prog.pipes[p].mpsc {
        let tx = st.mpsc_tx.lock().unwrap().clone();
        if let Some(tx) = tx { let _ = tx.unbounded_send(op); }
    } else {
        let keep = ctx.prog.pipes[p].keep_waker;
        let waker = {
            let mut c = st.input.lock().unwrap();
            c.q.push_back(op);
            if keep { c.waker.clone() } else { c.waker.take() }
        };
        if let Some(w) = waker { if keep { w.wake_by_ref() } else { w.wake() } }
    }
    rec.ret.store(clock(), ORD);
}

pub fn close_input(ctx: &Arc<RunCtx>, p: usize) {
    let st = &ctx.pipes[p];
    if ctx.prog.pipes[p].mpsc {
        let tx = st.mpsc_tx.lock().unwrap().take();
        std::mem::drop(tx);
    } else {
        let keep = ctx.prog.pipes[p].keep_waker;
        let waker = {
            let mut c = st.input.lock().unwrap();
            c.closed = true;
            if keep { c.waker.clone() } else { c.waker.take() }
        };
        if let Some(w) = waker { if keep { w.wake_by_ref() } else { w.wake() } }
    }
    st.closed_stamp.store(clock(), ORD);
}
