"""Engines, budgets, merging, verdicts. See DESIGN.md sections 1, 1.4, 5.2, 6."""
import fnmatch, glob, hashlib, json, os, shutil, subprocess, sys, threading, time
sys.path.insert(0, os.path.dirname(os.path.abspath(__file__)))
import sanit

VERIF   = os.path.dirname(os.path.dirname(os.path.abspath(__file__)))
HARNESS = os.path.join(VERIF, 'harness')
TARGET  = os.path.join(VERIF, 'target')
BUILD   = os.path.join(VERIF, 'build')
NCPU    = os.cpu_count() or 8

ENV = dict(os.environ, CARGO_NET_OFFLINE='true', CARGO_TERM_COLOR='never')

RULES = {
 'C01': "programs: generated from the seed (mixed op kinds on 1-3 objects, 1-4 caller threads + firer, pool 0-3, noise plan). Non-trivial: a second operation of an object was invoked from another context while an earlier one's span was open. Distinct: (program shape hash, interleaving signature = per-object start order, thread class each op ran on, number of suspensions, outcomes, wake landing classes).",
 'C02': "non-trivial: the run contained at least one real-time ordered pair of calls on one object across kinds and one across threads (ret(A) < inv(B)); every such pair is checked for end(A) < start(B). Distinct: (program shape, interleaving signature).",
 'C03': "non-trivial: a detached operation was scheduled within 3 logical stamps of another operation finishing (a runner releasing its queue / a pool thread going dormant while a scheduling call is in flight). Distinct: (program shape, interleaving signature).",
 'C04': "non-trivial: a sync closure ran on a thread other than its caller (wait-for-background path: pool thread, another draining caller) . Distinct: (program shape, interleaving signature).",
 'C05': "non-trivial: the last owner of the mortal object was dropped while operations of that object had finished less than 40 stamps earlier or were still unfinished. Distinct: (program shape, interleaving signature).",
 'C06': "non-trivial: a future operation returned Pending at least once (yield or closed gate) and later completed. Distinct: (program shape, interleaving signature incl. the queue state observed immediately before each wake and the thread class that last ran the op).",
 'C07': "non-trivial: the awaiting side polled the returned future at least once before the result existed. Distinct: (program shape, interleaving signature).",
 'C08': "non-trivial: a future_sync future was dropped after its closure had been invoked (mid-operation), or its slot was reached while it was not being polled. Distinct: (program shape, interleaving signature).",
 'C09': "non-trivial: both try_sync outcomes occurred on one object, or a try_sync call overlapped (by stamps) the end or return of another operation of the same object. Distinct: (program shape, interleaving signature).",
 'C10': "every run is non-trivial: k bodies block k pool threads on closed holds while other objects must complete. Distinct: (program shape, interleaving signature).",
 'C11': "non-trivial: an item was pushed while the previous item's processing was in flight, or the input was polled and found empty (producer went back to sleep). Distinct: (program shape, interleaving signature).",
 'C12': "non-trivial: the consumer parked at least once or an item arrived while the previous one was being processed. Distinct: (program shape, interleaving signature).",
 'C13': "non-trivial: at least one operation was scheduled while the queue was suspended. Distinct: (program shape, interleaving signature).",
 'C14': "non-trivial: a lifetime-erasing site was reached concurrently with another thread (sync closure run by another thread, last-owner drop with unfinished work, future_sync dropped mid-operation). Distinct: (program shape, interleaving signature).",
 'C15': "non-trivial: an injected panic actually unwound through a runner. Distinct: (panicking op kind, runner thread class, pool maximum, follow-up attempts made) via (scenario shape, interleaving signature).",
 'C16': "every run drops a pipe's output stream with the input open and silent afterwards. Distinct: (program shape incl. depth/items, interleaving signature, producer state class at the drop).",
 'C17': "non-trivial: at least one pool thread spawn event was observed by the hook (the live count is compared with the maximum at every spawn event). Distinct: (program shape, interleaving signature).",
}

ASSUMPTIONS = [
 "exploration only: schedules are sampled (OS scheduling, injected delays at hooked lock/unlock/wait/notify/park points), never enumerated",
 "the hook wrappers delegate to the real std primitives; with the cargo feature off the crate source is unchanged (baseline suite re-run with the feature off)",
 "liveness clauses are decided as 'complete at observed quiescence': all harness and pool threads asleep in untimed futex waits (state S) with unchanged context-switch counts over two /proc passes",
 "workload legitimacy rules of DESIGN.md section 0/2 (no self-nested sync, nested blocking only towards higher-numbered objects with pool >= objects, every gate fired, ...)",
]

# engine budgets (seconds of wall clock, process counts). The engines of one check run concurrently on the 16 cores.
BUDGET = {
  # quick: a fixed amount of work (so that the evidence of two runs on machines of different speed agrees): 28 native processes of
  # 2000 program runs each, 7 at a time; the seconds are only an upper limit (this VM's thread wake-up latency varies by 20x over time)
  'quick':    dict(native_s=150, native_procs=7, proc_ms=45000, native_total=28, native_runs=2000, miri_s=45, miri_procs=6,
                   asan_s=100, asan_procs=2, asan_total=4, asan_runs=1200, tsan_s=100, tsan_procs=2, tsan_total=4, tsan_runs=500),
  'thorough': dict(native_s=480, native_procs=8, proc_ms=20000, miri_s=480, miri_procs=5, asan_s=200, asan_procs=2, tsan_s=200, tsan_procs=2, memcheck_s=200, memcheck_procs=2),
}
# program runs per native process in the quick tier where a run is slow (hold phases decided by the quiescence oracle, thread deaths)
QUICK_RUNS = {'C10': 700, 'C15': 900}
FAMILIES = ['mix', 'mix', 'uniform', 'none', 'mix', 'onebig', 'uniform', 'mix']
# thorough: every process whose family is 'targeted' delays at one (site, position) pair per program run, drawn from the pairs it has seen:
# over the budget this sweeps all pairs many times (coverage.noise.site_positions_delayed reports how many were actually perturbed)
FAMILIES_THOROUGH = ['mix', 'targeted', 'uniform', 'targeted', 'none', 'onebig', 'targeted', 'mix', 'uniform', 'targeted']
ASAN_PROPS = {'C05', 'C08', 'C11', 'C14'}
TSAN_PROPS = {'C01', 'C14'}
MEMCHECK_PROPS = {'C05', 'C14'}
NO_MIRI = set()

def log(*a):
    print('[check]', *a, flush=True)


def build_native():
    os.makedirs(TARGET, exist_ok=True)
    lock_src = '/repo/Cargo.lock'
    if os.path.exists(lock_src) and not os.path.exists(os.path.join(HARNESS, 'Cargo.lock')):
        shutil.copy(lock_src, os.path.join(HARNESS, 'Cargo.lock'))
    env = dict(ENV, CARGO_TARGET_DIR=os.path.join(TARGET, 'native'))
    r = subprocess.run(['cargo', 'build', '--release', '--offline'], cwd=HARNESS, env=env, stdout=subprocess.PIPE, stderr=subprocess.STDOUT, text=True)
    if r.returncode != 0:
        log('BUILD FAILED (native harness)'); print(r.stdout[-4000:])
        return None
    return os.path.join(TARGET, 'native', 'release', 'dh')


def setup():
    ok = build_native() is not None
    ok = sanit.build_miri() and ok
    ok = (sanit.build_asan(True) is not None) and ok
    ok = (sanit.build_asan(False) is not None) and ok
    ok = (sanit.build_tsan() is not None) and ok
    return 0 if ok else 2


def load_known():
    p = os.path.join(VERIF, 'known_findings.json')
    if not os.path.exists(p): return []
    return json.load(open(p)).get('findings', [])


def known_match(known, prop, sig):
    for k in known:
        if k.get('status') == 'known' and k.get('property') == prop and fnmatch.fnmatch(sig, k.get('signature', '')):
            return k
    return None


def run_native(dh, prop, tier, seed, out_dir, budget_s, procs, proc_ms, families=FAMILIES, extra=None, env=None, tool=None, prefix='n', wrapper=None, total=None, runs=None):
    """Keeps `procs` harness processes running (fresh seed each) until the wall budget is used. A process ends at its own budget
    or at the first stuck run (its threads are wedged); the next one starts with another seed. With `tool` set (asan, tsan,
    memcheck) stderr is kept and scanned for that tool's reports."""
    os.makedirs(out_dir, exist_ok=True)
    t_end = time.time() + budget_s
    total0 = total
    running = {}
    results, k = [], 0
    inconclusive = []
    tool_violations = []
    while True:
        now = time.time()
        while len(running) < procs and now < t_end - 1.0 and (total is None or k < total):
            ms = int(min(proc_ms, max(1000, (t_end - now) * 1000)))
            out = os.path.join(out_dir, '%s%04d.json' % (prefix, k))
            if os.path.exists(out): os.remove(out)
            fam = families[k % len(families)]
            pseed = seed * 1000003 + k + (0 if not tool else 500009 * (1 + ['asan', 'asan-nohooks', 'tsan', 'memcheck'].index(tool)))
            cmd = (wrapper or []) + [dh, '--profile', prop, '--seed', str(pseed), '--budget-ms', str(ms), '--noise', fam, '--out', out, '--watchdog-s', '60'] + sanit.known_args()
            if runs: cmd += ['--runs', str(runs)]
            if extra: cmd += extra
            errf = open(os.path.join(out_dir, '%s%04d.stderr.txt' % (prefix, k)), 'w') if tool else subprocess.STDOUT
            p = subprocess.Popen(cmd, stdout=subprocess.PIPE, stderr=errf, text=True, env=env)
            running[p.pid] = (p, out, time.time(), ms, k, fam, pseed)
            k += 1
        if not running: break
        time.sleep(0.05)
        for pid in list(running):
            p, out, started, ms, idx, fam, pseed = running[pid]
            rc = p.poll()
            if rc is None:
                if time.time() - started > ms / 1000.0 * (12 if tool == 'memcheck' else 1) + 150:
                    p.kill(); p.wait(); del running[pid]
                    inconclusive.append('%s process %d (family %s) exceeded its budget by 150 s and was killed (watchdog): inconclusive' % (tool or 'native', idx, fam))
                continue
            del running[pid]
            txt = p.stdout.read() if p.stdout else ''
            if rc == 2:
                log('HARNESS ERROR in process %d:' % idx, txt[-2000:])
                return None, ['harness error'], []
            d = None
            if os.path.exists(out):
                try:
                    d = json.load(open(out)); results.append(d)
                    # A process whose threads got wedged by a violation of ANOTHER property stopped before it had done its share of the
                    # fixed work: another process (fresh seed) takes its place, so that a defect which shows in several ways does not
                    # keep the check from reaching the executions in which it breaks THIS property (at most three times the planned
                    # number of processes, within the same wall-clock limit). Never happens on a tree without violations.
                    if total is not None and runs and d.get('exit_reason') in ('stuck', 'many_violations') and d.get('evaluations', 0) < runs \
                            and not any(v['property'] == prop for v in d.get('violations', [])) and total < total0 * 3:
                        total += 1
                    if os.environ.get('VERIF_STOP_ON_VIOLATION') and any(v['property'] == prop for v in d.get('violations', [])): t_end = time.time()
                except Exception as e: inconclusive.append('process %d: unreadable output (%s)' % (idx, e))
            elif not tool and rc in (-11, -7, -4, -6, 139, 135, 132, 134):
                # The harness only uses the safe API: a segmentation fault / bus error / illegal instruction / abort of the process is memory
                # unsafety (or a panic inside a destructor during unwinding) in the code under test. It breaks C14 whatever is being checked,
                # and it is reported under the property being checked as well: none of the operations of that program completed as the
                # property demands (nothing can be said to have held in an execution that ended like this).
                sig = {-11: 'SIGSEGV', 139: 'SIGSEGV', -7: 'SIGBUS', 135: 'SIGBUS', -4: 'SIGILL', 132: 'SIGILL', -6: 'SIGABRT', 134: 'SIGABRT'}[rc]
                for vp in sorted(set(['C14', prop])):
                    tool_violations.append(dict(property=vp, kind='harness_process_crashed', signature='crash:%s' % sig,
                        detail='native harness process %d (profile %s, seed %d, noise %s) died with %s: %s' % (idx, prop, pseed, fam, sig, txt[-300:].replace('\n', ' | ')),
                        profile=prop, seed=pseed, run_index=0, noise_family=fam, engine='native', stderr_file='',
                        run=dict(run_index=0, noise_plan=fam, outcome='process crashed', program={}, diagnosis=txt[-4000:].split('\n')[-60:])))
                if os.environ.get('VERIF_STOP_ON_VIOLATION'): t_end = time.time()
            elif not tool:
                inconclusive.append('process %d exited with code %s and no output: %s' % (idx, rc, txt[-300:].replace('\n', ' | ')))
            if tool:
                errpath = os.path.join(out_dir, '%s%04d.stderr.txt' % (prefix, idx))
                text = open(errpath, errors='replace').read()
                for (vp, kind, sig, detail) in sanit.classify_sanitizer(text, 'asan' if tool.startswith('asan') else tool):
                    tool_violations.append(dict(property=vp, kind=kind, signature=sig, detail=detail, profile=prop, seed=pseed, run_index=0, noise_family=fam, engine=tool, stderr_file=errpath,
                                                run=dict(run_index=0, noise_plan=fam, outcome='sanitizer report', program={}, diagnosis=text[:8000].split('\n')[:120])))
                if d is None and not text.strip(): inconclusive.append('%s process %d exited with code %s and no output' % (tool, idx, rc))
                if d is None and text.strip() and not sanit.SAN_RE.search(text): inconclusive.append('%s process %d died without a report: %s' % (tool, idx, text[-200:].replace('\n', ' | ')))
    return results, inconclusive, tool_violations


def run_sweep(dh, prop, seed, out_dir, budget_s, procs):
    """Thorough tier: one short process per (lock site, position) pair with a delay injected at exactly that point in every
    program run. The pairs are those the property's own workload reaches (listed by a warm-up process)."""
    os.makedirs(out_dir, exist_ok=True)
    warm = os.path.join(out_dir, 'sweep_warmup.json')
    r = subprocess.run([dh, '--profile', prop, '--seed', str(seed * 31 + 7), '--budget-ms', '6000', '--noise', 'none', '--out', warm, '--list-targets'], stdout=subprocess.PIPE, stderr=subprocess.STDOUT, text=True)
    targets = []
    for line in r.stdout.splitlines():
        f = line.split()
        if len(f) == 4 and f[0] == 'TARGET': targets.append((f[1], int(f[2]), int(f[3])))
    targets.sort(key=lambda t: -t[2])
    results, inconclusive = [], []
    try: results.append(json.load(open(warm)))
    except Exception: pass
    if not targets: return results, ['sweep: no targets listed'], []
    per = max(1500, int(budget_s * 1000 * procs / max(1, len(targets))))
    per = min(per, 6000)
    t_end = time.time() + budget_s
    running, k = {}, 0
    queue = list(targets)
    done_targets = 0
    while True:
        while len(running) < procs and queue and time.time() < t_end:
            site, kind, hits = queue.pop(0)
            out = os.path.join(out_dir, 's%04d.json' % k)
            cmd = [dh, '--profile', prop, '--seed', str(seed * 7001 + k), '--budget-ms', str(per), '--noise', 'targeted', '--target', '%s:%d' % (site.replace('0x', ''), kind), '--out', out, '--watchdog-s', '60'] + sanit.known_args()
            p = subprocess.Popen(cmd, stdout=subprocess.PIPE, stderr=subprocess.STDOUT, text=True)
            running[p.pid] = (p, out, time.time(), k)
            k += 1
        if not running: break
        time.sleep(0.05)
        for pid in list(running):
            p, out, started, idx = running[pid]
            rc = p.poll()
            if rc is None:
                if time.time() - started > per / 1000.0 + 150:
                    p.kill(); p.wait(); del running[pid]; inconclusive.append('sweep process %d killed by the watchdog' % idx)
                continue
            del running[pid]
            if rc == 2: log('HARNESS ERROR in sweep process', idx); return None, ['harness error'], []
            try: results.append(json.load(open(out))); done_targets += 1
            except Exception as e: inconclusive.append('sweep process %d: no output (%s)' % (idx, e))
    log('sweep: %d of %d (site, position) pairs perturbed, %d ms each' % (done_targets, len(targets), per))
    return results, inconclusive, []


def merge(results):
    m = dict(evaluations=0, completed=0, stuck=0, inconclusive=0, nontrivial_runs=0, ordered_pairs_checked=0, pool_peak=0, hashes=set(), maps={}, violations=[], samples=[],
             notes=[], points={})
    for d in results:
        for k in ('evaluations', 'completed', 'stuck', 'inconclusive', 'nontrivial_runs', 'ordered_pairs_checked'): m[k] += d.get(k, 0)
        m['pool_peak'] = max(m['pool_peak'], d.get('pool_peak', 0))
        m['hashes'].update(d.get('nontrivial_hashes', []))
        for name in ('ops_by_kind', 'ops_by_runner', 'templates', 'pools', 'noise_plans', 'wake_landings', 'other', 'foreign_violations'):
            dst = m['maps'].setdefault(name, {})
            for k, v in d.get(name, {}).items(): dst[k] = dst.get(k, 0) + v
        m['violations'] += d.get('violations', [])
        if len(m['samples']) < 2: m['samples'] += d.get('samples', [])[:1]
        m['notes'] += d.get('inconclusive_notes', [])
        for pt in d.get('noise_coverage', {}).get('points', []):
            key = (pt['site'], pt['pos'])
            cur = m['points'].setdefault(key, [0, 0]); cur[0] += pt['hits']; cur[1] += pt['delays']
    return m


def write_replay(prop, v):
    os.makedirs(os.path.join(VERIF, 'replays'), exist_ok=True)
    h = hashlib.sha1((v['property'] + '|' + v['signature']).encode()).hexdigest()[:10]
    path = os.path.join(VERIF, 'replays', '%s-%s.json' % (prop, h))
    v = dict(v)
    v['replay_cmd'] = './check replay %s' % os.path.relpath(path, VERIF)
    json.dump(v, open(path, 'w'), indent=1)
    return path


def finish(prop, tier, seed, t0, m, extra_cov, inconclusive, engine_notes):
    """Writes the evidence file, prints the verdict lines, returns the exit code"""
    known = load_known()
    own = [v for v in m['violations'] if v['property'] == prop]
    foreign = [v for v in m['violations'] if v['property'] != prop]
    new, listed = {}, {}
    for v in own:
        k = known_match(known, prop, v['signature'])
        (listed if k else new).setdefault(v['signature'], v)
    replays = []
    for sig, v in new.items():
        replays.append((write_replay(prop, v), v))
    cov = dict(
        evaluations=m['evaluations'], distinct_nontrivial=len(m['hashes']), rule=RULES.get(prop, ''),
        samples=m['samples'][:2], nontrivial_runs=m['nontrivial_runs'], completed_runs=m['completed'], stuck_runs=m['stuck'],
        inconclusive_runs=m['inconclusive'] + len(inconclusive), inconclusive_notes=(m['notes'] + inconclusive)[:10],
        ordered_pairs_checked=m['ordered_pairs_checked'], pool_peak=m['pool_peak'],
        noise=dict(site_positions_seen=len(m['points']), site_positions_delayed=sum(1 for v in m['points'].values() if v[1] > 0),
                   delays_injected=sum(v[1] for v in m['points'].values()),
                   sites=sorted('%s/%s hits=%d delays=%d' % (k[0], k[1], v[0], v[1]) for k, v in m['points'].items())[:400]),
        own_violations=[dict(kind=v['kind'], signature=v['signature'], detail=v['detail']) for v in list(new.values()) + list(listed.values())],
        foreign_violations=sorted(set('%s:%s:%s' % (v['property'], v['kind'], v['signature']) for v in foreign)),
        engines=engine_notes,
    )
    cov.update(m['maps'])
    cov.update(extra_cov)
    ev = dict(property_id=prop, tier=tier, seed=seed, level='exploration', coverage=cov, assumptions=ASSUMPTIONS, wall_s=round(time.time() - t0, 1), violations=len(new))
    os.makedirs(os.path.join(VERIF, 'evidence'), exist_ok=True)
    json.dump(ev, open(os.path.join(VERIF, 'evidence', prop + '.json'), 'w'), indent=1)
    log('%s %s: %d program runs, %d non-trivial (%d distinct), %d stuck, %d inconclusive, %.0f s' % (prop, tier, m['evaluations'], m['nontrivial_runs'], len(m['hashes']), m['stuck'], cov['inconclusive_runs'], ev['wall_s']))
    for v in foreign[:5]:
        log('note: violation of another property seen on the way (reported by its own check): %s %s %s' % (v['property'], v['kind'], v['signature']))
    by_entry = {}
    for sig, v in listed.items():
        k = known_match(known, prop, sig)
        by_entry.setdefault(id(k), (k, []))[1].append(sig)
    for k, sigs in by_entry.values():
        print('KNOWN-FINDING: property=%s %s [observed: %s]' % (prop, k.get('what', ''), ', '.join(sorted(sigs))), flush=True)
    if replays:
        for path, v in replays:
            log('%s: %s' % (v['kind'], v['detail'][:400]))
            print('VIOLATION property=%s replay=%s' % (prop, path), flush=True)
        return 1
    if m['evaluations'] == 0 or len(m['hashes']) < 2:
        log('INCONCLUSIVE: nothing relevant was observed (%d runs, %d distinct non-trivial)' % (m['evaluations'], len(m['hashes'])))
        return 2
    return 0


def run_check(prop, tier, seed):
    if prop not in RULES:
        log('unknown property', prop); return 2
    t0 = time.time()
    b = dict(BUDGET[tier])
    scale = float(os.environ.get('VERIF_BUDGET_SCALE', '1'))
    for k in list(b):
        if k.endswith('_s'): b[k] = max(5, b[k] * scale)
    if tier == 'quick' and prop in QUICK_RUNS: b['native_runs'] = QUICK_RUNS[prop]
    out_dir = os.path.join(BUILD, 'run', prop)
    shutil.rmtree(out_dir, ignore_errors=True)
    os.makedirs(out_dir, exist_ok=True)
    only = os.environ.get('VERIF_ENGINES')           # e.g. "native,miri" to restrict (debugging aid)
    want = lambda e: (not only) or e in only.split(',')

    # builds first (incremental; they rebuild from /repo's working tree)
    bins = {}
    if want('native'):
        bins['native'] = build_native()
        if not bins['native']: return 2
    use_miri = want('miri') and prop not in NO_MIRI
    if use_miri and not sanit.build_miri(): return 2
    use_asan = want('asan') and prop in ASAN_PROPS
    if use_asan:
        bins['asan'] = sanit.build_asan(True)
        if not bins['asan']: return 2
        if prop == 'C14':
            bins['asan-nohooks'] = sanit.build_asan(False)
            if not bins['asan-nohooks']: return 2
    use_tsan = want('tsan') and prop in TSAN_PROPS
    if use_tsan:
        bins['tsan'] = sanit.build_tsan()
        if not bins['tsan']: return 2
    use_memcheck = want('memcheck') and tier == 'thorough' and prop in MEMCHECK_PROPS and shutil.which('valgrind')

    res = {}
    def job(name, fn):
        try: res[name] = fn()
        except Exception as e:
            import traceback; traceback.print_exc(); res[name] = ('error', str(e))
    jobs = []
    if want('native'):
        fams = FAMILIES_THOROUGH if tier == 'thorough' else FAMILIES
        jobs.append(('native', lambda: run_native(bins['native'], prop, tier, seed, out_dir, b['native_s'], b['native_procs'], b['proc_ms'], families=fams, total=b.get('native_total'), runs=b.get('native_runs'))))
    if want('native') and tier == 'thorough':
        jobs.append(('sweep', lambda: run_sweep(bins['native'], prop, seed, out_dir, b['native_s'] * 0.5, 4)))
    if use_miri:
        jobs.append(('miri', lambda: sanit.run_miri(prop, seed, out_dir, b['miri_s'], b['miri_procs'], log)))
    if use_asan:
        aenv = dict(os.environ, ASAN_OPTIONS='detect_leaks=0:halt_on_error=1:abort_on_error=0:symbolize=1:detect_stack_use_after_return=1')
        jobs.append(('asan', lambda: run_native(bins['asan'], prop, tier, seed, out_dir, b['asan_s'], b['asan_procs'], b['proc_ms'], env=aenv, tool='asan', prefix='a', total=b.get('asan_total'), runs=b.get('asan_runs'))))
        if 'asan-nohooks' in bins:
            jobs.append(('asan-nohooks', lambda: run_native(bins['asan-nohooks'], prop, tier, seed, out_dir, b['asan_s'], b['asan_procs'], b['proc_ms'], families=['off'], env=aenv, tool='asan-nohooks', prefix='b', total=b.get('asan_total'), runs=b.get('asan_runs'))))
    if use_tsan:
        tenv = dict(os.environ, TSAN_OPTIONS='halt_on_error=0:exitcode=0:report_signal_unsafe=0')
        jobs.append(('tsan', lambda: run_native(bins['tsan'], prop, tier, seed, out_dir, b['tsan_s'], b['tsan_procs'], b['proc_ms'], env=tenv, tool='tsan', prefix='t', total=b.get('tsan_total'), runs=b.get('tsan_runs'))))
    if use_memcheck:
        wrap = ['valgrind', '-q', '--error-exitcode=0', '--fair-sched=yes', '--num-callers=30']
        jobs.append(('memcheck', lambda: run_native(bins['native'], prop, tier, seed, out_dir, b['memcheck_s'], b['memcheck_procs'], 15000, families=['none', 'uniform'], tool='memcheck', prefix='v', wrapper=wrap, extra=['--watchdog-s', '600'])))
    threads = [threading.Thread(target=job, args=j) for j in jobs]
    for t in threads: t.start()
    for t in threads: t.join()

    all_results, inconclusive, notes, extra_viol = [], [], [], []
    per_engine = {}
    for name, _ in jobs:
        r = res.get(name)
        if r is None or r[0] is None or r[0] == 'error':
            log('engine %s failed: %s' % (name, r)); return 2
        results, inc, viol = r
        per_engine[name] = dict(processes=len(results), program_runs=sum(d.get('evaluations', 0) for d in results), reports=len(viol))
        all_results += results; inconclusive += inc; extra_viol += viol
    if any(v['property'] == 'HARNESS' for v in extra_viol):
        for v in extra_viol:
            if v['property'] == 'HARNESS': log('harness/tool error:', v['detail'])
        return 2
    m = merge(all_results)
    m['violations'] += extra_viol
    notes = ['%s: %s' % (k, v) for k, v in per_engine.items()]
    return finish(prop, tier, seed, t0, m, dict(per_engine=per_engine), inconclusive, notes)


def replay(path):
    v = json.load(open(path))
    log('witness: property %s, %s [%s]' % (v['property'], v['kind'], v['signature']))
    log(v['detail'])
    sys.path.insert(0, os.path.join(VERIF, 'lib'))
    import offline
    problems = offline.validate(v)
    for p in problems: log('offline re-validation of the recorded history:', p)
    if v.get('engine') == 'miri':
        # deterministic: same program seed, run index, interpreter seed and pre-emption rate
        env = dict(sanit.ENV, CARGO_TARGET_DIR=os.path.join(TARGET, 'miri'), MIRIFLAGS=v['miriflags'])
        cmd = sanit.miri_cmd(v['profile'], v['seed'], 600000, only=v['run_index'])
        r = subprocess.run(cmd, cwd=HARNESS, env=env, stdout=subprocess.PIPE, stderr=subprocess.PIPE, text=True)
        cls = sanit.classify_miri(v['profile'], r.stderr)
        hit = any(c[0] == v['property'] and c[1] == v['kind'] for c in cls)
        log('Miri replay (%s): %s' % (v['miriflags'], 'reproduced' if hit else 'not reproduced'))
        for c in cls: log('  ', c[0], c[1], c[3][:300])
        return 1 if hit else 0
    if v.get('kind') == 'harness_process_crashed':
        log('the harness process died; re-run the check (same seed) to look for it again: real-thread schedules are not replayable')
        return 0
    if v.get('engine') in ('asan', 'asan-nohooks', 'tsan', 'memcheck'):
        log('sanitizer report: see %s; re-run the check with VERIF_ENGINES=%s to look for it again (real-thread schedules are not replayable)' % (v.get('stderr_file'), v['engine'].split('-')[0]))
        return 0
    dh = build_native()
    if not dh: return 2
    cmd = [dh, '--profile', v['profile'], '--seed', str(v['seed']), '--only-run', str(v['run_index']), '--noise', v.get('noise_family', 'mix'), '--out', os.path.join(BUILD, 'replay.json')]
    os.makedirs(BUILD, exist_ok=True)
    hit = 0
    tries = int(os.environ.get('VERIF_REPLAY_TRIES', '200'))
    for i in range(tries):
        subprocess.run(cmd, stdout=subprocess.DEVNULL, stderr=subprocess.DEVNULL)
        try: d = json.load(open(os.path.join(BUILD, 'replay.json')))
        except Exception: continue
        if any(x['property'] == v['property'] and x['signature'] == v['signature'] for x in d.get('violations', [])):
            hit += 1
            log('reproduced on attempt %d' % (i + 1)); break
    log('re-run of the same program and noise plan: %s' % ('reproduced' if hit else 'not reproduced in %d attempts (the schedule is not controlled; the recorded history above stands on its own)' % tries))
    return 1 if hit else 0
