"""Engines E2 (Miri), E3 (AddressSanitizer), E4 (ThreadSanitizer), E5 (valgrind memcheck): build, run, parse reports"""
import json, os, re, shutil, subprocess, time

VERIF   = os.path.dirname(os.path.dirname(os.path.abspath(__file__)))
HARNESS = os.path.join(VERIF, 'harness')
TARGET  = os.path.join(VERIF, 'target')
ENV     = dict(os.environ, CARGO_NET_OFFLINE='true', CARGO_TERM_COLOR='never')
TRIPLE  = 'x86_64-unknown-linux-gnu'

LIVENESS = {'C03', 'C04', 'C05', 'C06', 'C07', 'C08', 'C09', 'C10', 'C11', 'C12', 'C13', 'C15', 'C16', 'C17'}


def _cargo(args, env, what):
    r = subprocess.run(['cargo'] + args, cwd=HARNESS, env=env, stdout=subprocess.PIPE, stderr=subprocess.STDOUT, text=True)
    if r.returncode != 0:
        print('[check] BUILD FAILED (%s)' % what); print(r.stdout[-3000:])
        return False
    return True


def build_asan(hooks=True):
    name = 'asan' if hooks else 'asan-nohooks'
    env = dict(ENV, CARGO_TARGET_DIR=os.path.join(TARGET, name), RUSTFLAGS='-Zsanitizer=address -Cforce-frame-pointers=yes')
    args = ['+nightly', 'build', '--release', '--offline', '--target', TRIPLE, '--features', 'uafbait']
    if not hooks: args += ['--no-default-features']
    return os.path.join(TARGET, name, TRIPLE, 'release', 'dh') if _cargo(args, env, name) else None


def build_tsan():
    env = dict(ENV, CARGO_TARGET_DIR=os.path.join(TARGET, 'tsan'), RUSTFLAGS='-Zsanitizer=thread')
    ok = _cargo(['+nightly', 'build', '--release', '--offline', '-Zbuild-std', '--target', TRIPLE, '--features', 'relaxed,uafbait'], env, 'tsan')
    return os.path.join(TARGET, 'tsan', TRIPLE, 'release', 'dh') if ok else None


def miri_env(seed, rate, extra=''):
    flags = '-Zmiri-disable-isolation -Zmiri-seed=%d -Zmiri-preemption-rate=%s %s' % (seed, rate, extra)
    return dict(ENV, CARGO_TARGET_DIR=os.path.join(TARGET, 'miri'), MIRIFLAGS=flags.strip())


def known_args():
    """--known arguments for the harness: findings listed (status known) in known_findings.json are recorded once per process and do
    not count towards the harness's own limit of violations per process"""
    try: ks = json.load(open(os.path.join(VERIF, 'known_findings.json'))).get('findings', [])
    except Exception: return []
    out = []
    for k in ks:
        if k.get('status') == 'known': out += ['--known', '%s|%s' % (k.get('property'), k.get('signature', ''))]
    return out


def miri_cmd(prop, seed, budget_ms, runs=1000000, only=None):
    cmd = ['cargo', '+nightly', 'miri', 'run', '--offline', '--features', 'relaxed,uafbait', '--', '--profile', prop, '--seed', str(seed), '--miri', '--budget-ms', str(budget_ms), '--runs', str(runs)] + known_args()
    if only is not None: cmd += ['--only-run', str(only)]
    return cmd


def build_miri():
    """Builds the harness for Miri (and the Miri sysroot on first use) by running zero programs"""
    r = subprocess.run(miri_cmd('C01', 1, 1, runs=0), cwd=HARNESS, env=miri_env(0, '0.01'), stdout=subprocess.PIPE, stderr=subprocess.STDOUT, text=True)
    if r.returncode != 0 or 'DHRESULT' not in r.stdout:
        print('[check] BUILD FAILED (miri)'); print(r.stdout[-3000:])
        return False
    return True


def _frames(block):
    """function names of a Miri backtrace block, innermost first"""
    return re.findall(r'^\s+\d+: (.+)$', block, re.M)


def _repo_frame(frames):
    for f in frames:
        if f.startswith('desync::') or f.startswith('<desync::'): return re.sub(r'::\{closure#\d+\}', '', f)[:100]
    for f in frames:
        if f.startswith('dh::'): return f[:100]
    return 'unknown'


def classify_miri(prop, text):
    """Turns the stderr of a failed Miri process into violations: list of (property, kind, signature, detail)"""
    out = []
    errs = [m.start() for m in re.finditer(r'^error: ', text, re.M)]
    blocks = [text[a:b] for a, b in zip(errs, errs[1:] + [len(text)])]
    deadlock_threads = []
    for b in blocks:
        head = b.split('\n', 1)[0]
        if head.startswith('error: aborting') or 'could not compile' in head: continue
        fr = _frames(b)
        if 'deadlock' in head:
            deadlock_threads.append((re.search(r'this is on thread `([^`]+)`', b), fr))
            continue
        if 'Undefined Behavior' in head:
            race = 'Data race' in head or 'data race' in head
            kind = 'miri_data_race' if race else 'miri_undefined_behaviour'
            sig = '%s:%s' % ('race' if race else 'ub', _repo_frame(fr))
            out.append(('C14', kind, sig, head + ' | first crate frame: ' + _repo_frame(fr)))
            if race and any('Payload' in f or 'closure_body' in f or 'future_body' in f for f in fr[:6]):
                out.append(('C01', 'miri_data_race_on_protected_value', sig, head))
            continue
        if 'memory leaked' in head:
            p = 'C16' if prop in ('C16', 'C12') else ('C11' if prop == 'C11' else 'C05')
            out.append((p, 'miri_memory_leak', 'leak', head[:300]))
            continue
        if 'unsupported operation' in head or 'main thread terminated' in head:
            out.append(('HARNESS', 'miri_unsupported', 'unsupported', head[:300]))
            continue
        if 'panicked' in head: continue
        out.append(('C14', 'miri_error', 'error:' + head[7:60], head[:300]))
    if deadlock_threads:
        # what is each stuck harness thread doing?
        where = []
        for m, fr in deadlock_threads:
            name = m.group(1) if m else '?'
            api = next((f for f in fr if re.search(r'desync::(desync::)?Desync<.*>::(sync|try_sync|drop)|Scheduler::(sync|try_sync|despawn)|block_on_with|Hold::wait|PipeStream', f)), None)
            where.append('%s in %s' % (name, (api or _repo_frame(fr))[:80]))
        by_api = 'C04' if any('::sync' in w and 'try_sync' not in w for w in where) else 'C09' if any('try_sync' in w for w in where) else 'C07' if any('block_on_with' in w for w in where) else 'C03'
        p = prop if prop in LIVENESS else by_api
        kinds = sorted(set(re.sub(r'^.* in ', '', w) for w in where if not w.startswith('main') and 'desync jobs' not in w))
        out.append((p, 'miri_deadlock', 'deadlock:' + '+'.join(k[:40] for k in kinds)[:160], 'the interpreted program deadlocked; stuck threads: ' + '; '.join(where)))
    return out


def run_miri(prop, seed, out_dir, budget_s, procs, log):
    """Runs `procs` Miri processes in parallel until the budget is used; every process interprets programs one after another"""
    os.makedirs(out_dir, exist_ok=True)
    t_end = time.time() + budget_s
    rates = ['0.01', '0.05', '0.2']
    running, results, violations, notes = {}, [], [], []
    k = 0
    while True:
        now = time.time()
        while len(running) < procs and now < t_end - 8:
            ms = int(max(4000, min(30000, (t_end - now) * 1000 - 4000)))
            mseed = seed * 7919 + k
            rate = rates[k % 3]
            extra = '-Zmiri-ignore-leaks' if prop == 'C15' else ''
            env = miri_env(mseed, rate, extra)
            cmd = miri_cmd(prop, seed * 104729 + k, ms)
            p = subprocess.Popen(cmd, cwd=HARNESS, env=env, stdout=subprocess.PIPE, stderr=subprocess.PIPE, text=True)
            running[p.pid] = (p, time.time(), ms, k, cmd, env['MIRIFLAGS'])
            k += 1
        if not running: break
        time.sleep(0.1)
        for pid in list(running):
            p, started, ms, idx, cmd, flags = running[pid]
            if p.poll() is None:
                if time.time() - started > ms / 1000.0 + 120:
                    p.kill(); p.wait(); del running[pid]
                    notes.append('miri process %d killed by the watchdog (inconclusive): MIRIFLAGS="%s" %s' % (idx, flags, ' '.join(cmd)))
                continue
            del running[pid]
            so, se = p.communicate()
            m = re.search(r'^DHRESULT (.*)$', so, re.M)
            runs_started = len(re.findall(r'^DHRUN ', so, re.M))
            if m:
                try:
                    d = json.loads(m.group(1)); d['miri_seed'] = flags; results.append(d)
                except Exception as e: notes.append('miri process %d: unreadable result (%s)' % (idx, e))
            if p.returncode != 0 and not (m and p.returncode == 3):
                last_run = [int(x) for x in re.findall(r'^DHRUN (\d+)', so, re.M)]
                cls = classify_miri(prop, se)
                if not cls and 'HARNESS BUG' in se + so: cls = [('HARNESS', 'harness_bug', 'bug', (se + so)[-400:])]
                if not cls: notes.append('miri process %d exited with %d without a recognisable report: %s' % (idx, p.returncode, se[-300:].replace('\n', ' | ')))
                path = os.path.join(out_dir, 'miri_%04d.stderr.txt' % idx)
                open(path, 'w').write(se[-200000:])
                for (vp, kind, sig, detail) in cls:
                    violations.append(dict(property=vp, kind=kind, signature=sig, detail=detail, profile=prop, seed=int(cmd[cmd.index('--seed') + 1]), run_index=last_run[-1] if last_run else 0,
                                           engine='miri', miriflags=flags, stderr_file=path,
                                           run=dict(run_index=last_run[-1] if last_run else 0, noise_plan='miri scheduler (%s)' % flags, outcome='interpreter error', program={}, diagnosis=se[-6000:].split('\n')[-80:])))
                if not m:
                    # count what was interpreted before the error
                    results.append(dict(evaluations=max(0, runs_started - 1), completed=max(0, runs_started - 1), stuck=0, inconclusive=0, nontrivial_runs=0, nontrivial_hashes=[], miri_seed=flags))
    return results, notes, violations


SAN_RE = re.compile(r'^(==\d+==ERROR: AddressSanitizer: [^\n]+|WARNING: ThreadSanitizer: [^\n]+|==\d+== (Invalid (read|write|free)[^\n]*|Mismatched free[^\n]*))', re.M)


def classify_sanitizer(text, tool):
    out = []
    for m in SAN_RE.finditer(text):
        head = m.group(1)
        tail = text[m.end(): m.end() + 6000]
        fr = re.findall(r'#\d+ 0x[0-9a-f]+ in (\S+)', tail) if tool != 'memcheck' else re.findall(r'(?:at|by) 0x[0-9A-F]+: (\S+)', tail)
        first = next((f for f in fr if 'desync' in f), None) or next((f for f in fr if f.startswith('dh') or '2dh' in f), 'unknown')
        first = re.sub(r'17h[0-9a-f]{16}E?$', '', first)[:90]
        kind = {'asan': 'addresssanitizer_report', 'tsan': 'threadsanitizer_report', 'memcheck': 'memcheck_report'}[tool]
        if tool == 'tsan' and 'data race' not in head: continue     # lock-order / signal reports are not what this engine decides
        what = re.sub(r'^==\d+==\s*(ERROR: )?', '', head)
        out.append(('C14', kind, '%s:%s:%s' % (tool, re.sub(r'[^a-z-]+', '_', what.lower())[:40], first), what + ' | first crate frame: ' + first))
        if tool == 'tsan' and any(('Payload' in f and 'touch' in f) or 'closure_body' in f or 'future_body' in f for f in fr[:8]):
            out.append(('C01', 'data_race_on_protected_value', 'tsan:payload', what))
    return out
