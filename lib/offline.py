"""Offline re-validation of a recorded history (the witness stands on its own): order, overlap and exactly-once rules"""

def validate(v):
    problems = []
    hist = v.get('run', {}).get('history', [])
    by_obj = {}
    for h in hist: by_obj.setdefault(h['obj'], []).append(h)
    for obj, ops in by_obj.items():
        # overlap of spans
        spans = sorted((h['start'], h['end'], h['op']) for h in ops if h['start'] and h['end'])
        for i in range(1, len(spans)):
            if spans[i][0] < spans[i - 1][1]:
                problems.append('object %d: span of op %d [%d,%d] overlaps op %d [%d,%d]' % (obj, spans[i][2], spans[i][0], spans[i][1], spans[i - 1][2], spans[i - 1][0], spans[i - 1][1]))
        # call order
        for a in ops:
            if not a['ret'] or not a['start'] or a['kind'] in ('pipe_item', 'suspend'): continue
            for b in ops:
                if a is b or not b['start'] or b['kind'] in ('pipe_item', 'suspend'): continue
                if a['ret'] < b['inv'] and (not a['end'] or a['end'] >= b['start']):
                    problems.append('object %d: op %d returned (%d) before op %d was invoked (%d) but op %d started at %d before op %d ended (%d)' % (obj, a['op'], a['ret'], b['op'], b['inv'], b['op'], b['start'], a['op'], a['end']))
        for h in ops:
            if h['runs'] > 1: problems.append('op %d ran %d times' % (h['op'], h['runs']))
    if not problems: problems.append('history is consistent with the order/overlap/exactly-once rules (the violation is of another kind: see detail and diagnosis)')
    return problems
